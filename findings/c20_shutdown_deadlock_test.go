package graphsync_test

// Reproduction of finding C20 "Transport.Shutdown waits, with dtChannelsLk held, for goroutines that need dtChannel.lk"
// (obligation (*graphsync.Transport).Shutdown/lock[order:graphsync.dtChannel.lk]).
// Run: engine/overlay_test.sh transport/graphsync findings/c20_shutdown_deadlock_test.go TestFindingShutdownDuringIncomingRequest

import (
	"context"
	"math/rand"
	"testing"
	"time"

	"github.com/ipfs/go-graphsync"
	"github.com/ipfs/go-test/random"
	"github.com/stretchr/testify/require"

	datatransfer "github.com/filecoin-project/go-data-transfer/v2"
	. "github.com/filecoin-project/go-data-transfer/v2/transport/graphsync"
	"github.com/filecoin-project/go-data-transfer/v2/transport/graphsync/testharness"
)

// behaves like the manager for a new / restart pull request: applies the channel's transport options from inside OnRequestReceived
type findingShutdownEvents struct {
	fakeEvents
	transport *Transport
	inHook    chan struct{}
	proceed   chan struct{}
}

func (e *findingShutdownEvents) OnRequestReceived(chid datatransfer.ChannelID, request datatransfer.Request) (datatransfer.Response, error) {
	close(e.inHook)
	<-e.proceed
	if err := MaxLinks(100)(chid, e.transport); err != nil {
		return nil, err
	}
	return e.fakeEvents.OnRequestReceived(chid, request)
}

func TestFindingShutdownDuringIncomingRequest(t *testing.T) {
	peers := random.Peers(2)
	self, other := peers[0], peers[1]
	transferID := datatransfer.TransferID(rand.Uint32())

	fgs := testharness.NewFakeGraphSync()
	transport := NewTransport(self, fgs)
	events := &findingShutdownEvents{transport: transport, inHook: make(chan struct{}), proceed: make(chan struct{})}
	require.NoError(t, transport.SetEventHandler(events))

	cfg := gsRequestConfig{}
	request := cfg.makeRequest(t, transferID, graphsync.NewRequestID())
	actions := &testharness.FakeIncomingRequestHookActions{}

	hookDone := make(chan struct{})
	go func() {
		defer close(hookDone)
		fgs.IncomingRequestHook(other, request, actions) // holds the channel's lock while the events handler runs
	}()
	select {
	case <-events.inHook:
	case <-time.After(5 * time.Second):
		t.Fatal("incoming request hook never reached the events handler")
	}

	// stop the transport while the transfer is active; the context expires after one second
	ctx, cancel := context.WithTimeout(context.Background(), time.Second)
	defer cancel()
	shutdownDone := make(chan struct{})
	go func() {
		defer close(shutdownDone)
		_ = transport.Shutdown(ctx)
	}()
	time.Sleep(300 * time.Millisecond) // Shutdown now holds dtChannelsLk and waits for the channel's shutdown goroutine
	close(events.proceed)              // the handler applies a transport option: needs dtChannelsLk

	timeout := time.After(6 * time.Second)
	select {
	case <-shutdownDone:
	case <-timeout:
		t.Fatal("Transport.Shutdown did not return (deadlock: holds dtChannelsLk, waits for a goroutine that needs the channel lock)")
	}
	select {
	case <-hookDone:
	case <-timeout:
		t.Fatal("incoming request hook did not return")
	}
}
