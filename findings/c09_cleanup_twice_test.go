package channels_test

// Reproduces finding C09/#4 on the real code: a NoChange event applied while a channel sits in a cleanup status
// (here: Disconnected while Cancelling) re-runs the cleanup entry function, so the transport release /
// connection un-protect happen twice for one ending.
import (
	"context"
	"errors"
	"sync/atomic"
	"testing"
	"time"

	"github.com/ipfs/go-datastore"
	dss "github.com/ipfs/go-datastore/sync"
	"github.com/ipfs/go-test/random"
	peer "github.com/libp2p/go-libp2p/core/peer"

	datatransfer "github.com/filecoin-project/go-data-transfer/v2"
	"github.com/filecoin-project/go-data-transfer/v2/channels"
	"github.com/filecoin-project/go-data-transfer/v2/testutil"
)

type countingEnv struct {
	cleanups int32
	first    chan struct{}
	release  chan struct{}
}

func (e *countingEnv) Protect(id peer.ID, tag string)        {}
func (e *countingEnv) Unprotect(id peer.ID, tag string) bool { return false }
func (e *countingEnv) ID() peer.ID                           { return peer.ID("") }
func (e *countingEnv) CleanupChannel(chid datatransfer.ChannelID) {
	if atomic.AddInt32(&e.cleanups, 1) == 1 {
		close(e.first)
		<-e.release // hold the first cleanup until the notice event has been queued
	}
}

func TestVerifFindingCleanupTwice(t *testing.T) {
	ctx, cancel := context.WithTimeout(context.Background(), 10*time.Second)
	defer cancel()
	ds := dss.MutexWrap(datastore.NewMapDatastore())
	env := &countingEnv{first: make(chan struct{}), release: make(chan struct{})}
	peers := random.Peers(2)
	cl, err := channels.New(ds, func(datatransfer.Event, datatransfer.ChannelState) {}, env, peers[0])
	if err != nil {
		t.Fatal(err)
	}
	if err := cl.Start(ctx); err != nil {
		t.Fatal(err)
	}
	chid, err := cl.CreateNew(peers[0], datatransfer.TransferID(1), random.Cids(1)[0], testutil.AllSelector(), testutil.NewTestTypedVoucher(), peers[0], peers[0], peers[1])
	if err != nil {
		t.Fatal(err)
	}
	if err := cl.Open(chid); err != nil {
		t.Fatal(err)
	}
	if err := cl.Cancel(chid); err != nil {
		t.Fatal(err)
	}
	<-env.first
	if err := cl.Disconnected(chid, errors.New("gone")); err != nil {
		t.Fatal(err)
	}
	close(env.release)
	deadline := time.Now().Add(5 * time.Second)
	for time.Now().Before(deadline) {
		st, err := cl.GetByID(ctx, chid)
		if err == nil && st.Status() == datatransfer.Cancelled {
			break
		}
		time.Sleep(10 * time.Millisecond)
	}
	if n := atomic.LoadInt32(&env.cleanups); n != 1 {
		t.Fatalf("cleanup ran %d times for one ending", n)
	}
}
