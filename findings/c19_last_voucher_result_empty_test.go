package channels

// Reproduces finding C19/#1 on the real code (before the fix): LastVoucherResult on a channel with no voucher
// result yet (every channel before its first result) indexes VoucherResults[-1].
import (
	"testing"

	datatransfer "github.com/filecoin-project/go-data-transfer/v2"
	"github.com/filecoin-project/go-data-transfer/v2/channels/internal"
)

func TestVerifFindingLastVoucherResultEmpty(t *testing.T) {
	st := fromInternalChannelState(internal.ChannelState{
		Vouchers: []internal.EncodedVoucher{{Type: "x"}},
		Stages:   &datatransfer.ChannelStages{},
	})
	got := st.LastVoucherResult()
	if got.Type != "" || got.Voucher != nil {
		t.Fatalf("expected the empty voucher result, got %v", got)
	}
}
