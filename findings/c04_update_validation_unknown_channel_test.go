package impl_test

// Reproduces known finding C04/#10 on the real code (before the fix):
// UpdateValidationStatus on an unknown channel dereferences the nil snapshot returned by processValidationUpdate.
import (
	"context"
	"testing"
	"time"

	"github.com/ipfs/go-datastore"
	"github.com/ipfs/go-test/random"
	dss "github.com/ipfs/go-datastore/sync"

	datatransfer "github.com/filecoin-project/go-data-transfer/v2"
	. "github.com/filecoin-project/go-data-transfer/v2/impl"
	"github.com/filecoin-project/go-data-transfer/v2/testutil"
)

func TestVerifFindingUpdateValidationUnknownChannel(t *testing.T) {
	ctx, cancel := context.WithTimeout(context.Background(), 10*time.Second)
	defer cancel()
	peers := random.Peers(2)
	network := testutil.NewFakeNetwork(peers[0])
	transport := testutil.NewFakeTransport()
	ds := dss.MutexWrap(datastore.NewMapDatastore())
	dt, err := NewDataTransfer(ds, network, transport)
	if err != nil {
		t.Fatal(err)
	}
	testutil.StartAndWaitForReady(ctx, t, dt)
	chid := datatransfer.ChannelID{Initiator: peers[1], Responder: peers[0], ID: datatransfer.TransferID(7)}
	err = dt.UpdateValidationStatus(ctx, chid, datatransfer.ValidationResult{Accepted: false})
	if err == nil {
		t.Fatal("expected an error for an unknown channel")
	}
}
