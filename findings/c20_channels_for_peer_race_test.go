package graphsync_test

// Reproduction of known finding C20 "ChannelsForPeer reads dtChannel.requestID without the channel's lock"
// (obligation (*transport/graphsync.Transport).ChannelsForPeer$1/ownership[dtChannel.requestID]).
// Needs the race detector: engine/overlay_test.sh with GO_TEST_FLAGS=-race, or
//   go test -race -overlay ... -run TestFindingChannelsForPeerRace ./transport/graphsync
// One goroutine lists the channels of a peer while incoming graphsync requests for a channel of that peer
// are being processed (gsDataRequestRcvd writes dtChannel.requestID under dtChannel.lk only).

import (
	"math/rand"
	"sync"
	"testing"

	"github.com/ipfs/go-graphsync"
	"github.com/ipfs/go-test/random"
	"github.com/stretchr/testify/require"

	datatransfer "github.com/filecoin-project/go-data-transfer/v2"
	. "github.com/filecoin-project/go-data-transfer/v2/transport/graphsync"
	"github.com/filecoin-project/go-data-transfer/v2/transport/graphsync/testharness"
)

func TestFindingChannelsForPeerRace(t *testing.T) {
	peers := random.Peers(2)
	self, other := peers[0], peers[1]
	transferID := datatransfer.TransferID(rand.Uint32())

	fgs := testharness.NewFakeGraphSync()
	transport := NewTransport(self, fgs)
	events := &fakeEvents{}
	require.NoError(t, transport.SetEventHandler(events))

	cfg := gsRequestConfig{}
	var wg sync.WaitGroup
	wg.Add(2)
	go func() {
		defer wg.Done()
		for i := 0; i < 5000; i++ {
			request := cfg.makeRequest(t, transferID, graphsync.NewRequestID())
			fgs.IncomingRequestHook(other, request, &testharness.FakeIncomingRequestHookActions{})
		}
	}()
	go func() {
		defer wg.Done()
		for i := 0; i < 5000; i++ {
			_ = transport.ChannelsForPeer(other)
		}
	}()
	wg.Wait()
}
