package network

// Reproduces finding C15/#11 on the real code (before the fix): when the public option DataTransferProtocols registers a
// protocol id other than /fil/datatransfer/1.2.0, an inbound stream on that protocol leaves `received == nil, err == nil`
// in handleNewStream and the handler invokes IsRequest on a nil interface (panic in the stream handler).
import (
	"context"
	"testing"
	"time"

	"github.com/libp2p/go-libp2p/core/peer"
	"github.com/libp2p/go-libp2p/core/protocol"
	libp2pnetwork "github.com/libp2p/go-libp2p/core/network"
	mocknet "github.com/libp2p/go-libp2p/p2p/net/mock"

	datatransfer "github.com/filecoin-project/go-data-transfer/v2"
)

type nullReceiver struct{ errs chan error }

func (r *nullReceiver) ReceiveRequest(ctx context.Context, sender peer.ID, incoming datatransfer.Request)   {}
func (r *nullReceiver) ReceiveResponse(ctx context.Context, sender peer.ID, incoming datatransfer.Response) {}
func (r *nullReceiver) ReceiveRestartExistingChannelRequest(ctx context.Context, sender peer.ID, incoming datatransfer.Request) {
}
func (r *nullReceiver) ReceiveError(err error) { r.errs <- err }

func TestVerifFindingUnknownProtocolStream(t *testing.T) {
	ctx, cancel := context.WithTimeout(context.Background(), 10*time.Second)
	defer cancel()
	mn := mocknet.New()
	h1, err := mn.GenPeer()
	if err != nil {
		t.Fatal(err)
	}
	h2, err := mn.GenPeer()
	if err != nil {
		t.Fatal(err)
	}
	if err := mn.LinkAll(); err != nil {
		t.Fatal(err)
	}
	if err := mn.ConnectAllButSelf(); err != nil {
		t.Fatal(err)
	}
	other := protocol.ID("/fil/datatransfer/9.9.9")
	dtnet2 := NewFromLibp2pHost(h2, DataTransferProtocols([]protocol.ID{other})).(*libp2pDataTransferNetwork)
	r := &nullReceiver{errs: make(chan error, 1)}
	dtnet2.receiver = r
	done := make(chan interface{}, 1)
	h2.SetStreamHandler(other, func(s libp2pnetwork.Stream) {
		defer func() { done <- recover() }()
		dtnet2.handleNewStream(s)
	})
	// after the fix the handler resets the stream at once, so opening / writing may report a reset: that is fine
	if s, err := h1.NewStream(ctx, h2.ID(), other); err == nil {
		_, _ = s.Write([]byte{0xa0})
	}
	select {
	case p := <-done:
		if p != nil {
			t.Fatalf("stream handler panicked: %v", p)
		}
	case <-ctx.Done():
		t.Fatal("handler did not return")
	}
	select {
	case <-r.errs:
	case <-time.After(2 * time.Second):
		t.Fatal("a stream on an unrecognized protocol must be reported as an error")
	}
}
