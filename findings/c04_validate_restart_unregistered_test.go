package impl_test

// Reproduces known finding C04/#2 on the real code (before the fix):
// a restart request for a stored channel whose voucher type has no registered validator (e.g. after a process
// restart, before the application re-registered it) makes validateRestart type-assert a nil Processor.
import (
	"context"
	"testing"
	"time"

	"github.com/ipfs/go-datastore"
	"github.com/ipfs/go-test/random"
	dss "github.com/ipfs/go-datastore/sync"

	datatransfer "github.com/filecoin-project/go-data-transfer/v2"
	. "github.com/filecoin-project/go-data-transfer/v2/impl"
	"github.com/filecoin-project/go-data-transfer/v2/message"
	"github.com/filecoin-project/go-data-transfer/v2/testutil"
)

func TestVerifFindingValidateRestartUnregistered(t *testing.T) {
	ctx, cancel := context.WithTimeout(context.Background(), 10*time.Second)
	defer cancel()
	peers := random.Peers(2)
	ds := dss.MutexWrap(datastore.NewMapDatastore())

	// first process lifetime: validator registered, channel created by an incoming pull request
	network := testutil.NewFakeNetwork(peers[0])
	transport := testutil.NewFakeTransport()
	dt, err := NewDataTransfer(ds, network, transport)
	if err != nil {
		t.Fatal(err)
	}
	testutil.StartAndWaitForReady(ctx, t, dt)
	sv := testutil.NewStubbedValidator()
	sv.StubResult(datatransfer.ValidationResult{Accepted: true})
	if err := dt.RegisterVoucherType(testutil.TestVoucherType, sv); err != nil {
		t.Fatal(err)
	}
	voucher := testutil.NewTestTypedVoucher()
	baseCid := random.Cids(1)[0]
	tid := datatransfer.TransferID(11)
	req, err := message.NewRequest(tid, false, true, &voucher, baseCid, testutil.AllSelector())
	if err != nil {
		t.Fatal(err)
	}
	chid := datatransfer.ChannelID{Initiator: peers[1], Responder: peers[0], ID: tid}
	if _, err := transport.EventHandler.OnRequestReceived(chid, req); err != nil {
		t.Fatal(err)
	}
	if err := dt.Stop(ctx); err != nil {
		t.Fatal(err)
	}

	// second lifetime on the same datastore: the application has not registered the validator yet
	network2 := testutil.NewFakeNetwork(peers[0])
	transport2 := testutil.NewFakeTransport()
	dt2, err := NewDataTransfer(ds, network2, transport2)
	if err != nil {
		t.Fatal(err)
	}
	testutil.StartAndWaitForReady(ctx, t, dt2)
	restart, err := message.NewRequest(tid, true, true, &voucher, baseCid, testutil.AllSelector())
	if err != nil {
		t.Fatal(err)
	}
	resp, err := transport2.EventHandler.OnRequestReceived(chid, restart) // panics before the fix
	if err == nil {
		t.Fatal("expected an error for an unregistered voucher type")
	}
	if resp == nil || resp.Accepted() {
		t.Fatal("expected a not-accepted reply")
	}
}
