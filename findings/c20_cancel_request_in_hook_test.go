package graphsync_test

// Reproduction of known finding C20 "incoming-request hook holds the channel lock while the events handler cleans the channel up"
// (obligation (*transport/graphsync.Transport).gsReqRecdHook/lock[order:graphsync.dtChannel.lk]).
// The events handler below does what (*impl.manager).OnRequestReceived does for a cancel request (impl/events.go:
// `m.transport.CleanupChannel(chid)`), which re-acquires the channel lock that gsReqRecdHook holds.
// Run: engine/overlay_test.sh /repo transport/graphsync findings/c20_cancel_request_in_hook_test.go TestFindingCancelRequestInsideIncomingRequestHook

import (
	"math/rand"
	"testing"
	"time"

	"github.com/ipfs/go-graphsync"
	"github.com/ipfs/go-test/random"
	"github.com/stretchr/testify/require"

	datatransfer "github.com/filecoin-project/go-data-transfer/v2"
	. "github.com/filecoin-project/go-data-transfer/v2/transport/graphsync"
	"github.com/filecoin-project/go-data-transfer/v2/transport/graphsync/testharness"
)

type findingCancelEvents struct {
	fakeEvents
	transport *Transport
}

func (e *findingCancelEvents) OnRequestReceived(chid datatransfer.ChannelID, request datatransfer.Request) (datatransfer.Response, error) {
	// impl/events.go, OnRequestReceived: "if request.IsCancel() { m.transport.CleanupChannel(chid); return nil, m.channels.Cancel(chid) }"
	e.transport.CleanupChannel(chid)
	return nil, nil
}

func TestFindingCancelRequestInsideIncomingRequestHook(t *testing.T) {
	peers := random.Peers(2)
	self, other := peers[0], peers[1]
	transferID := datatransfer.TransferID(rand.Uint32())

	fgs := testharness.NewFakeGraphSync()
	transport := NewTransport(self, fgs)
	events := &findingCancelEvents{transport: transport}
	require.NoError(t, transport.SetEventHandler(events))

	cfg := gsRequestConfig{}
	request := cfg.makeRequest(t, transferID, graphsync.NewRequestID())
	actions := &testharness.FakeIncomingRequestHookActions{}

	hookDone := make(chan struct{})
	go func() {
		defer close(hookDone)
		fgs.IncomingRequestHook(other, request, actions)
	}()
	select {
	case <-hookDone:
	case <-time.After(5 * time.Second):
		t.Fatal("incoming request hook did not return: the handler's CleanupChannel re-acquires the channel lock held by the hook")
	}
}
