package graphsync_test

// Reproduction of finding C09 "closing a channel whose transport request was never started (or was already cancelled) waits
// for the context instead of returning" (obligation (*transport/graphsync.dtChannel).close/blocking[prompt]).
// Run: engine/overlay_test.sh /repo transport/graphsync findings/c09_close_without_request_hangs_test.go TestFindingCloseWithoutRequestReturns

import (
	"context"
	"math/rand"
	"testing"
	"time"

	"github.com/ipfs/go-test/random"
	cidlink "github.com/ipld/go-ipld-prime/linking/cid"
	"github.com/stretchr/testify/require"

	datatransfer "github.com/filecoin-project/go-data-transfer/v2"
	. "github.com/filecoin-project/go-data-transfer/v2/transport/graphsync"
	"github.com/filecoin-project/go-data-transfer/v2/transport/graphsync/testharness"
)

func TestFindingCloseWithoutRequestReturns(t *testing.T) {
	peers := random.Peers(2)
	self, other := peers[0], peers[1]
	chid := datatransfer.ChannelID{ID: datatransfer.TransferID(rand.Uint32()), Initiator: other, Responder: self}

	fgs := testharness.NewFakeGraphSync()
	transport := NewTransport(self, fgs)
	require.NoError(t, transport.SetEventHandler(&fakeEvents{}))

	// the channel is known to the transport (a transport option was applied to it) but no graphsync request exists for it yet
	require.NoError(t, transport.UseStore(chid, cidlink.DefaultLinkSystem()))

	done := make(chan error, 1)
	go func() { done <- transport.CloseChannel(context.Background(), chid) }()
	select {
	case err := <-done:
		require.NoError(t, err)
	case <-time.After(3 * time.Second):
		t.Fatal("CloseChannel did not return for a channel whose transport request was never started")
	}
}
