"""Authoring helper (not part of any check): reads the failed lock[acquires-declared] obligations printed by gdtv.dev
and adds the missing classes to the `acquires {C20}` clause of each function in /repo's contract files.
The clauses it writes are ordinary contracts: every check re-proves them against the bodies and the call sites."""
import re, sys, glob
log = sys.argv[1]
need = {}
cur = None
for line in open(log):
    m = re.match(r"\s+failed\s+(.*)/lock\[acquires-declared\]", line)
    if m:
        cur = m.group(1); continue
    m = re.search(r"'undeclared': \[(.*?)\]", line)
    if m and cur:
        need.setdefault(cur, set()).update(x.strip().strip("'") for x in m.group(1).split(","))
        cur = None
# refinement failures: add the classes to the entry of the interface method (or dyn function type) refined
cur = None
for line in open(log):
    m = re.match(r"\s+failed\s+(.*)/lock\[refines:(.*)\]", line)
    if m:
        cur = m.group(2); continue
    m = re.search(r"acquires (.*?), which the contract of (\S+) does not allow", line)
    if m and cur:
        tgt = m.group(2)
        tgt = re.sub(r"[\w\-\.]+/", "", tgt)
        need.setdefault("IFACE:" + tgt, set()).update(x.strip() for x in m.group(1).split(","))
        cur = None
def norm(n):   # dev prints short names like (*transport/graphsync.Transport).X ; contracts use (*graphsync.Transport).X
    return re.sub(r"[\w\-]+/", "", n)
need = {norm(k): v for k, v in need.items()}
done = set()
for p in glob.glob("/repo/**/zz_contracts_verif.go", recursive=True):
    L = open(p).read().split("\n"); out = []; i = 0
    while i < len(L):
        l = L[i]; out.append(l)
        m = re.match(r"//@ (?:extern )?func (\S+)", l)
        if m and l.startswith("//@ extern") and ("IFACE:" + norm(m.group(1))) in need:
            need[norm(m.group(1))] = need.pop("IFACE:" + norm(m.group(1)))
        if m and norm(m.group(1)) in need:
            k = norm(m.group(1)); cls = set(norm(c) for c in need[k])
            # existing acquires clause directly after?
            if i + 1 < len(L) and L[i + 1].startswith("//@   acquires"):
                old = [x.strip() for x in re.sub(r"\{C20\}", "", L[i + 1][len("//@   acquires"):]).split("--")[0].split(",") if x.strip() and x.strip() != "nothing"]
                cls |= set(old); i += 1
            out.append("//@   acquires {C20} " + ", ".join(sorted(cls)))
            done.add(k)
        i += 1
    open(p, "w").write("\n".join(out))
print("updated", len(done), "missing", sorted(set(need) - done))
