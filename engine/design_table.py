#!/usr/bin/env python3
"""prints the S.1 status table of DESIGN.md from the evidence files (run after engine/runall.sh)"""
import json, glob
kf = json.load(open('/verif/known_findings.json'))
for f in sorted(glob.glob('/verif/evidence/C*.json')):
    e = json.load(open(f)); c = e['coverage']; p = e['property_id']
    fixed = [k['commit'] for k in kf if k['property'] == p and k['state'] == 'fixed']
    known = [k for k in kf if k['property'] == p and k['state'] == 'known']
    fs = ", ".join((["%d fixed (%s)" % (len(fixed), ", ".join(fixed))] if fixed else []) + (["%d known" % len(known)] if known else [])) or "—"
    extra = len(c.get('obligations_failing_only_on_known_findings') or [])
    print("| %s | %s | %d | %d%s | %.0f s | %s |" % (p, e['level'], len(c['functions_under_contract']), c['obligations'],
          (" (+%d failing only on known findings)" % extra) if extra else "", e['wall_s'], fs))
