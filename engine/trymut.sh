#!/bin/bash
# usage: trymut.sh <file-in-repo> <sed-expr> [pattern]   -- apply a sed mutation on a scratch copy and run dev driver
set -e
d=$(mktemp -d /tmp/mut.XXXXXX)
/verif/engine/mkscratch.sh $d >/dev/null
cd $d
cp $1 $1.orig
sed -i "$2" $1
if cmp -s $1 $1.orig; then echo "MUTATION DID NOT APPLY"; rm -rf $d; exit 1; fi
rm $1.orig
/verif/engine/front.sh $d /verif/work/mut.$$.json 2>&1 | tail -3
cd /verif/engine && python3-vt -m gdtv.dev /verif/work/mut.$$.json "$3" 2>&1 | grep -v "^==\|^stats\|^unmodelled\|^INIT" | cut -c1-400
rm -rf $d /verif/work/mut.$$.json
