#!/bin/bash
# usage: confirm_seed.sh <PROP> <out-dir-with patch.diff, demo test, meta.json> [name]
# Confirms a seeded change in a fresh scratch worktree: demo passes without it, fails with it, suite passes with it.
export PATH=/root/go/pkg/mod/golang.org/toolchain@v0.0.1-go1.24.0.linux-amd64/bin:$PATH GOTOOLCHAIN=local GOFLAGS=-mod=mod GOPROXY=off
unset GOSUMDB
prop=$1; out=$2; name=${3:-$prop}
w=/tmp/confirm-$name
git -C /repo worktree remove --force $w 2>/dev/null
git -C /repo worktree add --detach -q $w HEAD || exit 2
pkgdir=$(python3 -c "import json;print(json.load(open('$out/meta.json')).get('demo_pkg_dir','impl').strip('./') or '.')")
demo=$(ls $out/*_test.go | head -1)
cp $demo $w/$pkgdir/zz_seed_demo_test.go
tname=$(grep -o 'func Test[A-Za-z0-9_]*' $demo | head -1 | sed 's/func //')
cd $w
r1=$(go test -vet=off -count=1 -timeout 120s -run "^$tname\$" ./$pkgdir 2>&1 | tail -3)
echo "$r1" | grep -q "^ok" && without=pass || without=fail
git apply $out/patch.diff || { echo "PATCH DOES NOT APPLY"; git -C /repo worktree remove --force $w; exit 2; }
r2=$(go test -vet=off -count=1 -timeout 120s -run "^$tname\$" ./$pkgdir 2>&1 | tail -15)
echo "$r2" | grep -q "^ok" && with=pass || with=fail
rm $w/$pkgdir/zz_seed_demo_test.go
suite=$(go test -vet=off -count=1 -timeout 20m ./... 2>&1 | grep "^FAIL\|^--- FAIL\|^panic" | head -8)
if [ -n "$suite" ]; then
  # timing-sensitive packages (itest, channelmonitor) fail now and then on a loaded machine: re-run each failing package alone, twice
  pkgs=$(echo "$suite" | grep "^FAIL" | awk '{print $2}' | grep / | sed 's|github.com/filecoin-project/go-data-transfer/v2|.|' | sort -u)
  still=""
  for pk in $pkgs; do
    ok=0
    for i in 1 2; do go test -vet=off -count=1 -timeout 20m $pk >/dev/null 2>&1 && { ok=1; break; }; done
    [ $ok = 1 ] || still="$still $pk"
  done
  [ -z "$still" ] && suite="" && note=" (after re-running alone:$(echo $pkgs | tr '\n' ' '))"
fi
[ -z "$suite" ] && suiteres="pass$note" || suiteres="fail: $suite"
cd /
git -C /repo worktree remove --force $w
echo "CONFIRM $name: demo_without_change=$without demo_with_change=$with suite_with_change=$suiteres test=$tname pkg=$pkgdir"
