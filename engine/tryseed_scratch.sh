#!/bin/bash
# usage: tryseed_scratch.sh <patch> <prop...>  -- like tryseed.sh, but on a scratch copy of /repo (leaves /repo alone; safe while other checks run)
set -e
patch=$1; shift
d=$(mktemp -d /tmp/tryseed-XXXXXX)
bash /verif/engine/mkscratch.sh $d
(cd $d && patch -p1 -s < "$patch")
for p in "$@"; do
  (cd /verif && VERIF_REPO=$d VERIF_EVIDENCE_DIR=/verif/work/seedrun ./check $p quick 2>&1 | grep -v "^  obligation" | tail -6) || true
done
rm -rf $d
