#!/usr/bin/env python3
"""Authoring aid: operator-level mutation scan of functions under contract.
usage: mutscan.py <file.go relative to repo> [<file> ...] [--jobs N] [--max M] [--out results.json]
For each mutant (one token changed on one line inside a function that has a contract) the function's own declaration - and, for the
FSM table file, the channel lemmas - is re-verified on a scratch copy; survivors (no obligation fails) are listed for triage.
Not part of any check."""
import sys, os, re, json, subprocess, tempfile, shutil, random
from concurrent.futures import ThreadPoolExecutor
sys.path.insert(0, "/verif/engine")
args = [a for a in sys.argv[1:]]
def opt(name, default):
    if name in args:
        i = args.index(name); v = args[i + 1]; del args[i:i + 2]; return v
    return default
jobs = int(opt("--jobs", "5")); mx = int(opt("--max", "400")); outp = opt("--out", "/verif/work/mutscan.json"); seed = int(opt("--seed", "1"))
frm = opt("--from", None)
files = args
ssa = json.load(open("/verif/work/ssa.json"))
decl_funcs = set()
for c in ssa["contracts"]:
    m = re.match(r"\s*func (\S+)", c["text"].strip())
    if m: decl_funcs.add(re.sub(r"[\w\-]+/", "", m.group(1)))
# function line ranges
byfile = {}
for f in ssa["funcs"]:
    if not f.get("pos") or "$" in f["short"]:
        continue
    fn, ln = f["pos"].rsplit(":", 1)
    byfile.setdefault(fn, []).append((int(ln), f["short"]))
OPS = [(r"==", "!="), (r"!=", "=="), (r"&&", "||"), (r"\|\|", "&&"), (r"\btrue\b", "false"), (r"\bfalse\b", "true"), (r">=", "<"), (r"<=", ">"),
       (r" > ", " <= "), (r" < ", " >= "), (r"\bnil, err\b", "nil, nil"), (r"!(\w)", r"\1"), (r"\+ 1\b", "+ 2"), (r"\bInitiator\b", "Responder"), (r"\bResponder\b", "Initiator")]
muts = []
for rel in files:
    path = "/repo/" + rel
    lines = open(path).read().split("\n")
    funcs = sorted(byfile.get(path, []))
    def func_at(i):
        cur = None
        for (ln, name) in funcs:
            if ln <= i: cur = name
        return cur
    depth_end = {}
    for i, l in enumerate(lines, 1):
        s = l.strip()
        if not s or s.startswith("//") or "log." in s or "span." in s or "fmt.Errorf" in s or "errors.New" in s or s.startswith("func "):
            continue
        fn = func_at(i)
        if fn is None: continue
        key = re.sub(r"[\w\-]+/", "", fn).replace("message1_1prime.", "message1_1.")
        if key not in decl_funcs and rel != "channels/channels_fsm.go":
            continue
        for pat, rep in OPS:
            for m in re.finditer(pat, l):
                nl = l[:m.start()] + re.sub(pat, rep, l[m.start():m.end()]) + l[m.end():]
                if nl != l:
                    muts.append({"file": rel, "line": i, "func": fn, "old": l.strip(), "new": nl.strip(), "newline": nl})
        # statement deletion: a bare call statement
        if re.match(r"^[\w\.\(\)\*]+\(.*\)$", s) and not s.startswith(("return", "defer", "go ", "if", "for")):
            muts.append({"file": rel, "line": i, "func": fn, "old": s, "new": "(deleted)", "newline": ""})
random.Random(seed).shuffle(muts)
muts = muts[:mx]
if frm:
    prev = [r for r in json.load(open(frm)) if r["status"] in ("survived", "stale", "error")]
    muts = []
    for r in prev:
        L = open("/repo/" + r["file"]).read().split("\n")
        if r["line"] - 1 < len(L) and L[r["line"] - 1].strip() == r["old"] or r["new"] == "(deleted)":
            l = L[r["line"] - 1]
            if r["new"] == "(deleted)":
                nl = ""
            else:
                nl = l.replace(r["old"], r["new"]) if r["old"] in l else None
            if nl is not None:
                muts.append(dict(r, newline=nl))
print("mutants:", len(muts), file=sys.stderr)

ENV = dict(os.environ, PYTHONPATH="/verif/engine", GDTV_PRINT_ALL="1")
def run(m):
    w = tempfile.mkdtemp(prefix="mut-", dir="/tmp")
    try:
        subprocess.run(["bash", "/verif/engine/mkscratch.sh", w], check=True, capture_output=True)
        p = os.path.join(w, m["file"])
        L = open(p).read().split("\n")
        L[m["line"] - 1] = m["newline"]
        open(p, "w").write("\n".join(L))
        js = os.path.join(w, "ssa.json")
        r = subprocess.run(["bash", "/verif/engine/front.sh", w, js], capture_output=True, text=True, timeout=300)
        if r.returncode != 0 or not os.path.exists(js):
            return dict(m, status="nocompile")
        short = re.sub(r"[\w\-]+/", "", m["func"]).replace("message1_1prime.", "message1_1.")
        pats = [short] if m["file"] != "channels/channels_fsm.go" else ["@lemmas", short]
        out = ""
        for pat in pats:
            r = subprocess.run(["python3-vt", "-m", "gdtv.dev", js, pat], capture_output=True, text=True, env=ENV, timeout=900, cwd="/verif/engine")
            out += r.stdout
        failed = re.findall(r"^\s+(failed|unknown)\s+(\S+)", out, re.M)
        bad = re.findall(r"^== .*: (UNSUPPORTED|CRASH).*$|^CONTRACT ERROR.*$", out, re.M)
        st = "killed" if failed else ("stale" if bad or "CONTRACT ERROR" in out else "survived")
        # known findings always fail: ignore them
        real = [f for f in failed if "lock[order:graphsync.dtChannel.lk]" not in f[1] and "ownership[dtChannel.requestID]" not in f[1] and "lemma[once-per-entry]" not in f[1]]
        if failed and not real: st = "survived"
        return dict(m, status=st, obligations=[f[1] for f in real][:4])
    except Exception as e:
        return dict(m, status="error", detail=str(e)[:200])
    finally:
        shutil.rmtree(w, ignore_errors=True)

with ThreadPoolExecutor(jobs) as ex:
    res = list(ex.map(run, muts))
for r in res: r.pop("newline", None)
json.dump(res, open(outp, "w"), indent=1)
from collections import Counter
print(Counter(r["status"] for r in res))
for r in res:
    if r["status"] in ("survived", "stale", "error"):
        print("%-9s %s:%d %s | %s  =>  %s" % (r["status"], r["file"], r["line"], r["func"], r["old"][:90], r["new"][:90]))
