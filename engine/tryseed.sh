#!/bin/bash
# usage: tryseed.sh <patch> <prop...>  -- apply a seeded change to /repo, run the quick checks, undo
set -e
patch=$1; shift
if [ -n "$(git -C /repo status --porcelain)" ]; then echo "REFUSED: /repo has uncommitted changes (commit them first)"; exit 2; fi
git -C /repo apply "$patch"
for p in "$@"; do
  (cd /verif && VERIF_EVIDENCE_DIR=/verif/work/seedrun ./check $p quick 2>&1 | grep -v "^  obligation" | tail -6) || true
done
git -C /repo checkout -- .
git -C /repo status --short | head -3
