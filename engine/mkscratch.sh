#!/bin/bash
# usage: mkscratch.sh <dir>   -- copy of /repo's working tree (no .git) for mutant experiments
set -e
d=$1
rm -rf "$d"; mkdir -p "$d"
cd /repo && tar --exclude=.git -cf - . | (cd "$d" && tar xf -)
