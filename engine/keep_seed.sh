#!/bin/bash
# usage: keep_seed.sh <PROP> <out-dir> <name> "<confirm line>" "<checks run and result>"
prop=$1; out=$2; name=$3
d=/verif/seeded/$name
mkdir -p $d
cp $out/patch.diff $d/patch.diff
cp $out/*_test.go $d/ 2>/dev/null
python3 - "$prop" "$out" "$d" "$4" "$5" <<'PY'
import json,sys
prop,out,d,confirm,checks=sys.argv[1:6]
m=json.load(open(out+'/meta.json'))
json.dump({"property":prop,"summary":m.get("summary"),"needs_to_manifest":m.get("needs_to_manifest"),"files_changed":m.get("files_changed"),
 "demo_pkg_dir":m.get("demo_pkg_dir"),"demo_cmd":m.get("demo_cmd"),"confirmed_by_me":confirm,"checks_run":checks,"origin":"independent sub-agent given only the property text"},open(d+'/meta.json','w'),indent=1)
PY
