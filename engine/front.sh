#!/bin/bash
# usage: front.sh <repo dir> <out json>
export PATH=/root/go/pkg/mod/golang.org/toolchain@v0.0.1-go1.24.0.linux-amd64/bin:$PATH GOTOOLCHAIN=local GOFLAGS=-mod=mod GOPROXY=off
unset GOSUMDB
exec /verif/bin/gofront -dir "$1" -o "$2"
