#!/bin/bash
# runs every claimed check (quick) and prints one summary line each; non-zero exit if any check is not clean
cd /verif
rc=0
for p in $(python3 -c "import json;print(' '.join(c['property_id'] for c in json.load(open('MANIFEST.json'))['checks']))"); do
  out=$(./check $p quick 2>&1); e=$?
  echo "$out" | grep -E "VIOLATION|KNOWN-FINDING|CONTRACT-STALE|MACHINERY|^$p quick" | cut -c1-300
  [ $e -ne 0 ] && { echo "  -> exit $e"; rc=1; }
done
exit $rc
