#!/usr/bin/env python3
"""regenerates MANIFEST.json from props_meta.json (+ not_applicable reasons in props_na.json)"""
import json, subprocess
meta = json.load(open('/verif/props_meta.json'))
try:
    na = json.load(open('/verif/props_na.json'))
except FileNotFoundError:
    na = {}
props = [json.loads(l)['id'] for l in open('/verif/properties.jsonl')]
claimed = sorted(meta)
checks = []
for p in claimed:
    m = meta[p]
    checks.append({"property_id": p, "quick_cmd": "./check %s quick" % p, "thorough_cmd": "./check %s thorough" % p,
                   "evidence_file": "evidence/%s.json" % p, "replay_cmd_template": "./check %s --replay {path}" % p, "engine": "gdtv",
                   "level_claimed": {"category": m["level"], "text": m["explanation"] + ". Every obligation is generated from the go/ssa form of /repo's working tree and discharged by an SMT solver for all inputs (no bound)." + (" Conjuncts not decided: " + "; ".join(m["not_decided"]) if m.get("not_decided") else ""),
                                     "design_ref": "DESIGN.md section 3 " + p},
                   "level_note": "; ".join(m["trusted_base"][:8]) + "; see evidence coverage.trusted_base for the full list",
                   "technique": "contract-based deductive verification (VC generation over go/ssa, SMT: z3/cvc5)"})
log = subprocess.run(['git', '-C', '/repo', 'log', '--format=%h %s'], capture_output=True, text=True).stdout.splitlines()
man = {"version": 1, "setup_cmd": "./setup.sh",
       "hooks": {"guard": "verif", "enable": "the front-end loads /repo with -tags verif; contracts are //@ comment lines in */zz_contracts_verif.go (comment-only files, package clause only)",
                 "baseline_off_cmd": "cd /repo && GOFLAGS=-mod=mod go test -vet=off -count=1 -timeout 25m ./...",
                 "source_commits": [l.split()[0] for l in log if l.split(' ', 1)[1].startswith('verif:')], "add_only": True},
       "engines": [{"name": "gdtv", "path": "engine/gdtv", "serves_properties": claimed,
                    "kind_free_text": "Go front-end (go/packages+go/ssa dump, engine/gofront) + Python engine: path-based symbolic execution of SSA, contracts as //@ comments, VC generation, z3/cvc5; FSM layer extracted from channels.init"}],
       "checks": checks,
       "notes": "see DESIGN.md; known findings in known_findings.json; seeded changes in seeded/",
       "not_applicable": [{"property_id": p, "reason": na.get(p, "check not built yet (framework under construction); see DESIGN.md for the plan")} for p in props if p not in claimed]}
json.dump(man, open('/verif/MANIFEST.json', 'w'), indent=1)
print("claimed:", claimed)
