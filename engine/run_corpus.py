#!/usr/bin/env python3
"""usage: run_corpus.py <dir with index.json and patches> [jobs]  -- applies each patch to a scratch copy of /repo and runs the quick
check of its property there; prints caught / missed with the failing obligations (authoring aid for the must-fail corpus)"""
import json, os, sys, subprocess, tempfile, shutil, re
from concurrent.futures import ThreadPoolExecutor
d = sys.argv[1]
jobs = int(sys.argv[2]) if len(sys.argv) > 2 else 3
idx = json.load(open(os.path.join(d, "index.json")))

def run(m):
    prop = m["property"].rstrip("†")[:3]
    w = tempfile.mkdtemp(prefix="corpus-", dir="/tmp")
    try:
        subprocess.run(["bash", "/verif/engine/mkscratch.sh", w], check=True, capture_output=True)
        p = subprocess.run(["git", "apply", "--whitespace=nowarn", os.path.join(d, m["patch"])], cwd=w, capture_output=True, text=True)
        if p.returncode != 0:
            return dict(m, status="skipped", detail=p.stderr[:200])
        env = dict(os.environ, VERIF_REPO=w, VERIF_NO_REPLAY="1", VERIF_EVIDENCE_DIR=os.path.join(w, "ev"))
        p = subprocess.run(["/verif/check", prop, "quick"], env=env, capture_output=True, text=True, timeout=1200)
        obl = re.findall(r"^  obligation (\S+):", p.stdout, re.M)
        stale = re.findall(r"^(CONTRACT-STALE.*|MACHINERY.*)$", p.stdout, re.M)
        st = "caught" if p.returncode == 1 and obl else ("stale" if stale else "missed")
        return dict(m, status=st, exit=p.returncode, obligations=obl[:6], stale=[s[:160] for s in stale[:2]])
    except Exception as e:
        return dict(m, status="error", detail=str(e)[:200])
    finally:
        shutil.rmtree(w, ignore_errors=True)

with ThreadPoolExecutor(jobs) as ex:
    res = list(ex.map(run, idx))
json.dump(res, open(os.path.join(d, "results.json"), "w"), indent=1)
for r in res:
    print("%-8s %s %-45s %s %s" % (r["status"], r["property"], r["patch"][:45], " ".join(r.get("obligations") or [])[:150], (r.get("stale") or r.get("detail") or "")))
