// gofront: loads the packages of /repo (build tag `verif` on), builds go/ssa and dumps
// functions, types, globals, method sets and the //@ contract lines as one JSON document.
// It is the only place where Go source is read; everything downstream works on this dump,
// which is regenerated from the working tree on every run.
package main

import (
	"encoding/json"
	"flag"
	"fmt"
	"go/ast"
	"go/constant"
	"go/token"
	"go/types"
	"os"
	"path/filepath"
	"sort"
	"strings"

	"golang.org/x/tools/go/packages"
	"golang.org/x/tools/go/ssa"
	"golang.org/x/tools/go/ssa/ssautil"
)

const modPath = "github.com/filecoin-project/go-data-transfer/v2"

type Operand struct {
	K string `json:"k"`           // v | const | global | func | builtin
	N string `json:"n,omitempty"` // value name / qualified name
	T string `json:"t,omitempty"` // type (const)
	V any    `json:"v,omitempty"` // const value
}

type Instr struct {
	Op   string         `json:"op"`
	Name string         `json:"name,omitempty"`
	Type string         `json:"type,omitempty"`
	Args []Operand      `json:"args,omitempty"`
	Aux  map[string]any `json:"aux,omitempty"`
	Pos  string         `json:"pos,omitempty"`
	Str  string         `json:"str"`
}

type Block struct {
	Index   int     `json:"index"`
	Comment string  `json:"comment"`
	Preds   []int   `json:"preds"`
	Succs   []int   `json:"succs"`
	Idom    int     `json:"idom"`
	Instrs  []Instr `json:"instrs"`
}

type Param struct {
	Name string `json:"name"`
	Type string `json:"type"`
}

type Func struct {
	Name      string              `json:"name"`
	Short     string              `json:"short"`
	Pkg       string              `json:"pkg"`
	Pos       string              `json:"pos"`
	File      string              `json:"file"`
	Recv      string              `json:"recv,omitempty"`
	Params    []Param             `json:"params"`
	Results   []Param             `json:"results"`
	FreeVars  []Param             `json:"freevars,omitempty"`
	Anon      []string            `json:"anon,omitempty"`
	Parent    string              `json:"parent,omitempty"`
	Synthetic string              `json:"synthetic,omitempty"`
	Blocks    []Block             `json:"blocks"`
	Locals    map[string][]string `json:"locals,omitempty"`
	Generated bool                `json:"generated,omitempty"`
}

type Field struct {
	Name     string `json:"name"`
	Type     string `json:"type"`
	Embedded bool   `json:"embedded,omitempty"`
}

type Method struct {
	Name string `json:"name"`
	Sig  string `json:"sig"`
	Func string `json:"func,omitempty"`
}

type TypeInfo struct {
	Kind       string   `json:"kind"`
	Underlying string   `json:"underlying,omitempty"`
	Fields     []Field  `json:"fields,omitempty"`
	Methods    []Method `json:"methods,omitempty"`  // interface methods, or method set of named T
	PMethods   []Method `json:"pmethods,omitempty"` // method set of *T for named T
	Elem       string   `json:"elem,omitempty"`
	Key        string   `json:"key,omitempty"`
	Len        int64    `json:"len,omitempty"`
	Params     []string `json:"params,omitempty"`
	Results    []string `json:"results,omitempty"`
	Variadic   bool     `json:"variadic,omitempty"`
	Basic      string   `json:"basic,omitempty"`
	Pkg        string   `json:"pkg,omitempty"`
	Implements []string `json:"implements,omitempty"`
}

type Global struct {
	Name string `json:"name"`
	Type string `json:"type"`
	Pkg  string `json:"pkg"`
}

type ContractLine struct {
	File string `json:"file"`
	Line int    `json:"line"`
	Pkg  string `json:"pkg"`
	Text string `json:"text"`
}

type ConstInfo struct {
	Name string `json:"name"`
	Type string `json:"type"`
	V    any    `json:"v"`
}

type Dump struct {
	Go        string               `json:"go"`
	Packages  []string             `json:"packages"`
	Types     map[string]*TypeInfo `json:"types"`
	Funcs     []*Func              `json:"funcs"`
	Globals   []Global             `json:"globals"`
	Consts    []ConstInfo          `json:"consts"`
	Contracts []ContractLine       `json:"contracts"`
	StructDecls map[string][]Field `json:"struct_decls"`
	PkgNames  map[string]string    `json:"pkg_names"`
	DepVars   map[string]string    `json:"dep_vars"`
}

var (
	fset  *token.FileSet
	dump  = &Dump{Types: map[string]*TypeInfo{}, StructDecls: map[string][]Field{}}
	prog  *ssa.Program
	ifaces []*types.Named
)

func qual(p *types.Package) string { return p.Path() }

func tstr(t types.Type) string {
	if t == nil {
		return ""
	}
	return types.TypeString(t, qual)
}

func shortName(s string) string {
	s = strings.ReplaceAll(s, modPath+"/", "")
	s = strings.ReplaceAll(s, modPath+".", "datatransfer.")
	s = strings.ReplaceAll(s, modPath+")", "datatransfer)")
	return s
}

func posStr(p token.Pos) string {
	if !p.IsValid() {
		return ""
	}
	pp := fset.Position(p)
	return fmt.Sprintf("%s:%d", pp.Filename, pp.Line)
}

func inRepo(p *types.Package) bool {
	return p != nil && (p.Path() == modPath || strings.HasPrefix(p.Path(), modPath+"/"))
}

func regType(t types.Type) string {
	if t == nil {
		return ""
	}
	s := tstr(t)
	if _, ok := dump.Types[s]; ok {
		return s
	}
	ti := &TypeInfo{}
	dump.Types[s] = ti
	switch tt := t.(type) {
	case *types.Basic:
		ti.Kind = "basic"
		ti.Basic = tt.Name()
	case *types.Alias:
		ti.Kind = "alias"
		ti.Underlying = regType(types.Unalias(tt))
	case *types.Named:
		ti.Kind = "named"
		if tt.Obj().Pkg() != nil {
			ti.Pkg = tt.Obj().Pkg().Path()
		}
		ti.Underlying = regType(tt.Underlying())
		if tt.TypeArgs() == nil || tt.TypeArgs().Len() == 0 {
			ms := prog.MethodSets.MethodSet(tt)
			for i := 0; i < ms.Len(); i++ {
				sel := ms.At(i)
				m := Method{Name: sel.Obj().Name(), Sig: tstr(sel.Type())}
				if inRepo(tt.Obj().Pkg()) && !types.IsInterface(tt) {
					if f := prog.MethodValue(sel); f != nil {
						m.Func = f.String()
					}
				}
				ti.Methods = append(ti.Methods, m)
			}
			if !types.IsInterface(tt) {
				pms := prog.MethodSets.MethodSet(types.NewPointer(tt))
				for i := 0; i < pms.Len(); i++ {
					sel := pms.At(i)
					m := Method{Name: sel.Obj().Name(), Sig: tstr(sel.Type())}
					if inRepo(tt.Obj().Pkg()) {
						if f := prog.MethodValue(sel); f != nil {
							m.Func = f.String()
						}
					}
					ti.PMethods = append(ti.PMethods, m)
				}
			}
		}
	case *types.Pointer:
		ti.Kind = "pointer"
		ti.Elem = regType(tt.Elem())
	case *types.Slice:
		ti.Kind = "slice"
		ti.Elem = regType(tt.Elem())
	case *types.Array:
		ti.Kind = "array"
		ti.Elem = regType(tt.Elem())
		ti.Len = tt.Len()
	case *types.Map:
		ti.Kind = "map"
		ti.Key = regType(tt.Key())
		ti.Elem = regType(tt.Elem())
	case *types.Chan:
		ti.Kind = "chan"
		ti.Elem = regType(tt.Elem())
	case *types.Struct:
		ti.Kind = "struct"
		for i := 0; i < tt.NumFields(); i++ {
			f := tt.Field(i)
			ti.Fields = append(ti.Fields, Field{Name: f.Name(), Type: regType(f.Type()), Embedded: f.Embedded()})
		}
	case *types.Interface:
		ti.Kind = "interface"
		for i := 0; i < tt.NumMethods(); i++ {
			m := tt.Method(i)
			ti.Methods = append(ti.Methods, Method{Name: m.Name(), Sig: tstr(m.Type())})
			regType(m.Type())
		}
	case *types.Signature:
		ti.Kind = "func"
		ti.Variadic = tt.Variadic()
		for i := 0; i < tt.Params().Len(); i++ {
			ti.Params = append(ti.Params, regType(tt.Params().At(i).Type()))
		}
		for i := 0; i < tt.Results().Len(); i++ {
			ti.Results = append(ti.Results, regType(tt.Results().At(i).Type()))
		}
	case *types.Tuple:
		ti.Kind = "tuple"
		for i := 0; i < tt.Len(); i++ {
			ti.Params = append(ti.Params, regType(tt.At(i).Type()))
		}
	case *types.TypeParam:
		ti.Kind = "typeparam"
	default:
		ti.Kind = "other"
	}
	return s
}

func constVal(c *ssa.Const) any {
	if c.Value == nil {
		return nil
	}
	switch c.Value.Kind() {
	case constant.Bool:
		return constant.BoolVal(c.Value)
	case constant.String:
		return constant.StringVal(c.Value)
	case constant.Int:
		return c.Value.ExactString()
	case constant.Float:
		return c.Value.ExactString()
	}
	return c.Value.String()
}

func operand(v ssa.Value) Operand {
	switch x := v.(type) {
	case nil:
		return Operand{K: "none"}
	case *ssa.Const:
		o := Operand{K: "const", T: regType(x.Type()), V: constVal(x)}
		if x.Value == nil {
			o.N = "zero"
		} else {
			switch x.Value.Kind() {
			case constant.Bool:
				o.N = "bool"
			case constant.String:
				o.N = "string"
			case constant.Int:
				o.N = "int"
			case constant.Float:
				o.N = "float"
			default:
				o.N = "other"
			}
		}
		return o
	case *ssa.Global:
		return Operand{K: "global", N: x.String(), T: regType(x.Type())}
	case *ssa.Function:
		return Operand{K: "func", N: x.String(), T: regType(x.Type())}
	case *ssa.Builtin:
		return Operand{K: "builtin", N: x.Name()}
	default:
		return Operand{K: "v", N: v.Name(), T: regType(v.Type())}
	}
}

func operands(vs ...ssa.Value) []Operand {
	out := make([]Operand, 0, len(vs))
	for _, v := range vs {
		out = append(out, operand(v))
	}
	return out
}

func callAux(c *ssa.CallCommon, aux map[string]any) []Operand {
	var args []Operand
	if c.IsInvoke() {
		aux["mode"] = "invoke"
		aux["method"] = c.Method.Name()
		aux["iface"] = regType(c.Value.Type())
		aux["callee"] = "(" + tstr(c.Value.Type()) + ")." + c.Method.Name()
		args = append(args, operand(c.Value))
	} else {
		switch f := c.Value.(type) {
		case *ssa.Function:
			aux["mode"] = "static"
			aux["callee"] = f.String()
			if f.Signature.Recv() != nil {
				aux["hasrecv"] = true
			}
		case *ssa.Builtin:
			aux["mode"] = "builtin"
			aux["callee"] = f.Name()
		case *ssa.MakeClosure:
			aux["mode"] = "closure"
			aux["callee"] = f.Fn.(*ssa.Function).String()
			args = append(args, operand(c.Value))
		default:
			aux["mode"] = "dynamic"
			args = append(args, operand(c.Value))
		}
	}
	aux["sig"] = regType(c.Signature())
	for _, a := range c.Args {
		args = append(args, operand(a))
	}
	return args
}

func dumpInstr(in ssa.Instruction) Instr {
	ins := Instr{Str: in.String(), Pos: posStr(in.Pos()), Aux: map[string]any{}}
	if v, ok := in.(ssa.Value); ok {
		ins.Name = v.Name()
		ins.Type = regType(v.Type())
	}
	ins.Op = strings.TrimPrefix(fmt.Sprintf("%T", in), "*ssa.")
	switch x := in.(type) {
	case *ssa.Alloc:
		ins.Aux["heap"] = x.Heap
		ins.Aux["comment"] = x.Comment
	case *ssa.BinOp:
		ins.Aux["op"] = x.Op.String()
		ins.Args = operands(x.X, x.Y)
	case *ssa.UnOp:
		ins.Aux["op"] = x.Op.String()
		ins.Aux["commaok"] = x.CommaOk
		ins.Args = operands(x.X)
	case *ssa.Call:
		ins.Args = callAux(&x.Call, ins.Aux)
	case *ssa.Go:
		ins.Args = callAux(&x.Call, ins.Aux)
	case *ssa.Defer:
		ins.Args = callAux(&x.Call, ins.Aux)
	case *ssa.ChangeInterface:
		ins.Args = operands(x.X)
	case *ssa.ChangeType:
		ins.Args = operands(x.X)
	case *ssa.Convert:
		ins.Args = operands(x.X)
	case *ssa.MultiConvert:
		ins.Args = operands(x.X)
	case *ssa.SliceToArrayPointer:
		ins.Args = operands(x.X)
	case *ssa.Extract:
		ins.Aux["index"] = x.Index
		ins.Args = operands(x.Tuple)
	case *ssa.Field:
		st := x.X.Type().Underlying().(*types.Struct)
		ins.Aux["field"] = st.Field(x.Field).Name()
		ins.Aux["index"] = x.Field
		ins.Args = operands(x.X)
	case *ssa.FieldAddr:
		st := x.X.Type().Underlying().(*types.Pointer).Elem().Underlying().(*types.Struct)
		ins.Aux["field"] = st.Field(x.Field).Name()
		ins.Aux["index"] = x.Field
		ins.Aux["struct"] = regType(x.X.Type().Underlying().(*types.Pointer).Elem())
		ins.Args = operands(x.X)
	case *ssa.Index:
		ins.Args = operands(x.X, x.Index)
	case *ssa.IndexAddr:
		ins.Args = operands(x.X, x.Index)
	case *ssa.Lookup:
		ins.Aux["commaok"] = x.CommaOk
		ins.Args = operands(x.X, x.Index)
	case *ssa.MakeChan:
		ins.Args = operands(x.Size)
	case *ssa.MakeClosure:
		ins.Aux["fn"] = x.Fn.(*ssa.Function).String()
		ins.Args = operands(x.Bindings...)
	case *ssa.MakeInterface:
		ins.Aux["from"] = regType(x.X.Type())
		ins.Args = operands(x.X)
	case *ssa.MakeMap:
		if x.Reserve != nil {
			ins.Args = operands(x.Reserve)
		}
	case *ssa.MakeSlice:
		ins.Args = operands(x.Len, x.Cap)
	case *ssa.Next:
		ins.Aux["isstring"] = x.IsString
		ins.Args = operands(x.Iter)
	case *ssa.Phi:
		ins.Aux["comment"] = x.Comment
		ins.Args = operands(x.Edges...)
	case *ssa.Range:
		ins.Args = operands(x.X)
	case *ssa.Select:
		ins.Aux["blocking"] = x.Blocking
		var sts []map[string]any
		for _, st := range x.States {
			m := map[string]any{"dir": int(st.Dir), "chan": operand(st.Chan)}
			if st.Send != nil {
				m["send"] = operand(st.Send)
			}
			sts = append(sts, m)
		}
		ins.Aux["states"] = sts
	case *ssa.Slice:
		ins.Args = operands(x.X, x.Low, x.High, x.Max)
	case *ssa.TypeAssert:
		ins.Aux["asserted"] = regType(x.AssertedType)
		ins.Aux["commaok"] = x.CommaOk
		ins.Args = operands(x.X)
	case *ssa.If:
		ins.Args = operands(x.Cond)
	case *ssa.Jump:
	case *ssa.MapUpdate:
		ins.Args = operands(x.Map, x.Key, x.Value)
	case *ssa.Panic:
		ins.Args = operands(x.X)
	case *ssa.Return:
		ins.Args = operands(x.Results...)
	case *ssa.RunDefers:
	case *ssa.Send:
		ins.Args = operands(x.Chan, x.X)
	case *ssa.Store:
		ins.Args = operands(x.Addr, x.Val)
	case *ssa.DebugRef:
	default:
		ins.Aux["unsupported"] = true
	}
	if len(ins.Aux) == 0 {
		ins.Aux = nil
	}
	return ins
}

func isGeneratedFile(f *ast.File) bool {
	for _, cg := range f.Comments {
		for _, c := range cg.List {
			if strings.Contains(c.Text, "Code generated") && strings.Contains(c.Text, "DO NOT EDIT") {
				return true
			}
		}
		break
	}
	return false
}

func dumpFunc(f *ssa.Function, generated map[string]bool) *Func {
	out := &Func{Name: f.String(), Short: shortName(f.String()), Pos: posStr(f.Pos()), Synthetic: f.Synthetic}
	if f.Pkg != nil {
		out.Pkg = f.Pkg.Pkg.Path()
	} else if f.Parent() != nil && f.Parent().Pkg != nil {
		out.Pkg = f.Parent().Pkg.Pkg.Path()
	}
	if f.Pos().IsValid() {
		out.File = fset.Position(f.Pos()).Filename
		out.Generated = generated[out.File]
	}
	for _, p := range f.Params {
		out.Params = append(out.Params, Param{p.Name(), regType(p.Type())})
	}
	if f.Signature.Recv() != nil && len(f.Params) > 0 {
		out.Recv = f.Params[0].Name()
	}
	res := f.Signature.Results()
	for i := 0; i < res.Len(); i++ {
		out.Results = append(out.Results, Param{res.At(i).Name(), regType(res.At(i).Type())})
	}
	for _, fv := range f.FreeVars {
		out.FreeVars = append(out.FreeVars, Param{fv.Name(), regType(fv.Type())})
	}
	for _, a := range f.AnonFuncs {
		out.Anon = append(out.Anon, a.String())
	}
	if f.Parent() != nil {
		out.Parent = f.Parent().String()
	}
	out.Locals = map[string][]string{}
	for _, b := range f.Blocks {
		blk := Block{Index: b.Index, Comment: b.Comment, Idom: -1}
		if b.Idom() != nil {
			blk.Idom = b.Idom().Index
		}
		for _, p := range b.Preds {
			blk.Preds = append(blk.Preds, p.Index)
		}
		for _, s := range b.Succs {
			blk.Succs = append(blk.Succs, s.Index)
		}
		for _, in := range b.Instrs {
			if dr, ok := in.(*ssa.DebugRef); ok {
				if id, ok := dr.Expr.(*ast.Ident); ok && dr.X != nil {
					n := dr.X.Name()
					if dr.IsAddr {
						n = "&" + n
					}
					out.Locals[id.Name] = append(out.Locals[id.Name], n)
				}
				continue
			}
			blk.Instrs = append(blk.Instrs, dumpInstr(in))
		}
		out.Blocks = append(out.Blocks, blk)
	}
	return out
}

func main() {
	dir := flag.String("dir", "/repo", "repository")
	outp := flag.String("o", "ssa.json", "output")
	tags := flag.String("tags", "verif", "build tags")
	flag.Parse()

	cfg := &packages.Config{
		Mode:       packages.LoadAllSyntax,
		Dir:        *dir,
		BuildFlags: []string{"-tags=" + *tags},
		Tests:      false,
	}
	pkgs, err := packages.Load(cfg, "./...")
	if err != nil {
		fmt.Fprintln(os.Stderr, "load:", err)
		os.Exit(2)
	}
	nerr := 0
	dump.PkgNames = map[string]string{}
	packages.Visit(pkgs, nil, func(p *packages.Package) {
		dump.PkgNames[p.PkgPath] = p.Name
		if inRepoPath(p.PkgPath) {
			for _, e := range p.Errors {
				fmt.Fprintln(os.Stderr, "pkg error:", e)
				nerr++
			}
		}
	})
	if nerr > 0 {
		os.Exit(2)
	}
	var ssaPkgs []*ssa.Package
	prog, ssaPkgs = ssautil.AllPackages(pkgs, ssa.GlobalDebug|ssa.InstantiateGenerics)
	prog.Build()
	fset = prog.Fset
	dump.Go = "go/ssa x/tools v0.29.0"

	skip := func(path string) bool {
		for _, s := range []string{"/testutil", "/benchmarks", "/itest", "/testharness", "/scripts"} {
			if strings.Contains(path, s) {
				return true
			}
		}
		return false
	}

	generated := map[string]bool{}
	repoPkgs := map[*ssa.Package]*packages.Package{}
	for i, p := range pkgs {
		if ssaPkgs[i] == nil || skip(p.PkgPath) {
			continue
		}
		repoPkgs[ssaPkgs[i]] = p
		dump.Packages = append(dump.Packages, p.PkgPath)
		for _, f := range p.Syntax {
			fn := fset.Position(f.Pos()).Filename
			if isGeneratedFile(f) {
				generated[fn] = true
			}
			// contracts
			if strings.HasSuffix(fn, "_verif.go") {
				for _, cg := range f.Comments {
					for _, c := range cg.List {
						if strings.HasPrefix(c.Text, "//@") {
							dump.Contracts = append(dump.Contracts, ContractLine{
								File: fn, Line: fset.Position(c.Pos()).Line, Pkg: p.PkgPath,
								Text: strings.TrimPrefix(c.Text, "//@"),
							})
						}
					}
				}
			}
			// struct declarations as written (field order of source), for coverage obligations
			for _, d := range f.Decls {
				gd, ok := d.(*ast.GenDecl)
				if !ok || gd.Tok != token.TYPE {
					continue
				}
				for _, s := range gd.Specs {
					ts := s.(*ast.TypeSpec)
					obj := p.Types.Scope().Lookup(ts.Name.Name)
					if obj == nil {
						continue
					}
					regType(obj.Type())
					if st, ok := obj.Type().Underlying().(*types.Struct); ok {
						var fs []Field
						for i := 0; i < st.NumFields(); i++ {
							fs = append(fs, Field{Name: st.Field(i).Name(), Type: regType(st.Field(i).Type()), Embedded: st.Field(i).Embedded()})
						}
						dump.StructDecls[tstr(obj.Type())] = fs
					}
					if named, ok := obj.Type().(*types.Named); ok && types.IsInterface(named) {
						ifaces = append(ifaces, named)
					}
				}
			}
		}
	}

	// exported package variables of the direct dependencies (so contracts can name e.g. statemachine.ErrTerminated)
	dump.DepVars = map[string]string{}
	for _, p := range pkgs {
		if skip(p.PkgPath) {
			continue
		}
		for _, imp := range p.Imports {
			if inRepoPath(imp.PkgPath) || imp.Types == nil {
				continue
			}
			sc := imp.Types.Scope()
			for _, n := range sc.Names() {
				if v, ok := sc.Lookup(n).(*types.Var); ok && v.Exported() {
					dump.DepVars[imp.PkgPath+"."+n] = regType(v.Type())
				}
				if c, ok := sc.Lookup(n).(*types.Const); ok && c.Exported() {
					var val any
					switch c.Val().Kind() {
					case constant.Bool:
						val = constant.BoolVal(c.Val())
					case constant.String:
						val = constant.StringVal(c.Val())
					case constant.Int:
						val = c.Val().ExactString()
					default:
						continue
					}
					dump.Consts = append(dump.Consts, ConstInfo{Name: imp.PkgPath + "." + n, Type: regType(c.Type()), V: val})
				}
			}
		}
	}

	// collect functions: members, methods, anonymous
	seen := map[*ssa.Function]bool{}
	var add func(f *ssa.Function)
	add = func(f *ssa.Function) {
		if f == nil || seen[f] {
			return
		}
		seen[f] = true
		if len(f.Blocks) > 0 {
			dump.Funcs = append(dump.Funcs, dumpFunc(f, generated))
		}
		for _, a := range f.AnonFuncs {
			add(a)
		}
	}
	for sp, p := range repoPkgs {
		names := make([]string, 0, len(sp.Members))
		for n := range sp.Members {
			names = append(names, n)
		}
		sort.Strings(names)
		for _, n := range names {
			switch m := sp.Members[n].(type) {
			case *ssa.Function:
				add(m)
			case *ssa.Global:
				dump.Globals = append(dump.Globals, Global{Name: m.String(), Type: regType(m.Type()), Pkg: p.PkgPath})
			case *ssa.NamedConst:
				dump.Consts = append(dump.Consts, ConstInfo{Name: p.PkgPath + "." + n, Type: regType(m.Type()), V: constVal(m.Value)})
			case *ssa.Type:
				t := m.Type()
				regType(t)
				for _, tt := range []types.Type{t, types.NewPointer(t)} {
					ms := prog.MethodSets.MethodSet(tt)
					for i := 0; i < ms.Len(); i++ {
						if f := prog.MethodValue(ms.At(i)); f != nil && f.Pkg == sp {
							add(f)
						}
					}
				}
			}
		}
	}
	// implements: for in-repo named non-interface types, which in-repo interfaces they satisfy
	for name, ti := range dump.Types {
		_ = name
		_ = ti
	}
	for sp := range repoPkgs {
		for _, mem := range sp.Members {
			t, ok := mem.(*ssa.Type)
			if !ok || types.IsInterface(t.Type()) {
				continue
			}
			ti := dump.Types[tstr(t.Type())]
			if ti == nil {
				continue
			}
			for _, in := range ifaces {
				it := in.Underlying().(*types.Interface)
				if it.NumMethods() == 0 {
					continue
				}
				if types.Implements(t.Type(), it) {
					ti.Implements = append(ti.Implements, tstr(in))
				} else if types.Implements(types.NewPointer(t.Type()), it) {
					ti.Implements = append(ti.Implements, "*"+tstr(in))
				}
			}
			sort.Strings(ti.Implements)
		}
	}
	sort.Slice(dump.Funcs, func(i, j int) bool { return dump.Funcs[i].Name < dump.Funcs[j].Name })
	sort.Slice(dump.Globals, func(i, j int) bool { return dump.Globals[i].Name < dump.Globals[j].Name })
	sort.Slice(dump.Contracts, func(i, j int) bool {
		if dump.Contracts[i].File != dump.Contracts[j].File {
			return dump.Contracts[i].File < dump.Contracts[j].File
		}
		return dump.Contracts[i].Line < dump.Contracts[j].Line
	})
	sort.Strings(dump.Packages)

	if err := os.MkdirAll(filepath.Dir(*outp), 0o755); err != nil {
		fmt.Fprintln(os.Stderr, err)
		os.Exit(2)
	}
	fo, err := os.Create(*outp)
	if err != nil {
		fmt.Fprintln(os.Stderr, err)
		os.Exit(2)
	}
	enc := json.NewEncoder(fo)
	if err := enc.Encode(dump); err != nil {
		fmt.Fprintln(os.Stderr, err)
		os.Exit(2)
	}
	fo.Close()
	fmt.Fprintf(os.Stderr, "gofront: %d packages, %d functions, %d types, %d contract lines\n",
		len(dump.Packages), len(dump.Funcs), len(dump.Types), len(dump.Contracts))
}

func inRepoPath(p string) bool { return p == modPath || strings.HasPrefix(p, modPath+"/") }
