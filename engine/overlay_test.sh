#!/bin/bash
# usage: overlay_test.sh <repo-dir> <pkg-dir> <test-file> <TestName>   -- run a test file injected via -overlay (nothing written to the repo)
export PATH=/root/go/pkg/mod/golang.org/toolchain@v0.0.1-go1.24.0.linux-amd64/bin:$PATH GOTOOLCHAIN=local GOFLAGS=-mod=mod GOPROXY=off
unset GOSUMDB
repo=$1; pkg=$2; f=$3; t=$4
w=$(mktemp -d)
echo "{\"Replace\": {\"$repo/$pkg/zz_verif_replay_test.go\": \"$f\"}}" > $w/ov.json
(cd $repo && go test -overlay $w/ov.json -vet=off -count=1 -timeout 60s -run "^$t\$" ./$pkg 2>&1 | tail -25)
rm -rf $w
