"""Symbolic values: z3 leaves (Int/Bool/Str/Ref/Real) under Python-level composites."""
import z3

Str = z3.DeclareSort("Str")
Ref = z3.DeclareSort("Ref")
NIL = z3.Const("nil", Ref)
dyntype = z3.Function("dyntype", Ref, z3.IntSort())

INT_RANGES = {
    "int": (-(1 << 63), (1 << 63) - 1), "int64": (-(1 << 63), (1 << 63) - 1), "int32": (-(1 << 31), (1 << 31) - 1),
    "int16": (-(1 << 15), (1 << 15) - 1), "int8": (-128, 127),
    "uint": (0, (1 << 64) - 1), "uint64": (0, (1 << 64) - 1), "uint32": (0, (1 << 32) - 1), "uint16": (0, 65535),
    "uint8": (0, 255), "byte": (0, 255), "rune": (-(1 << 31), (1 << 31) - 1), "uintptr": (0, (1 << 64) - 1),
    "untyped int": (-(1 << 63), (1 << 63) - 1), "untyped rune": (-(1 << 31), (1 << 31) - 1),
}

_uf_cache = {}


def uf(name, argsorts, ret):
    key = (name, tuple(str(s) for s in argsorts), str(ret))
    f = _uf_cache.get(key)
    if f is None:
        f = z3.Function(name, *argsorts, ret)
        _uf_cache[key] = f
    return f


_counter = [0]


def fresh_name(hint):
    _counter[0] += 1
    return "%s!%d" % (hint, _counter[0])


_type_ids = {}


def type_id(t):
    if t not in _type_ids:
        _type_ids[t] = len(_type_ids) + 1
    return _type_ids[t]


_str_lits = {}


def str_lit(s):
    if s not in _str_lits:
        _str_lits[s] = z3.Const("str!%d" % len(_str_lits), Str)
    return _str_lits[s]


_str_ax = [0, []]


def str_axioms():
    if _str_ax[0] != len(_str_lits):
        vs = list(_str_lits.values())
        _str_ax[1] = [z3.Distinct(*vs)] if len(vs) > 1 else []
        _str_ax[0] = len(_str_lits)
    return _str_ax[1]


class StructV:
    __slots__ = ("t", "f")

    def __init__(self, t, f):
        self.t, self.f = t, f

    def with_field(self, name, v):
        f = dict(self.f)
        f[name] = v
        return StructV(self.t, f)

    def __repr__(self):
        return "Struct<%s>{%s}" % (self.t.rsplit("/", 1)[-1], ", ".join("%s:%r" % kv for kv in self.f.items()))


class PtrV:
    __slots__ = ("t", "cell", "path", "nil", "ref", "roott")

    def __init__(self, t, cell, path, nil, ref, roott):
        self.t, self.cell, self.path, self.nil, self.ref, self.roott = t, cell, path, nil, ref, roott

    def __repr__(self):
        return "Ptr(%s%s)" % (self.cell, "".join("." + str(p) for p in self.path))


class IfaceV:
    __slots__ = ("ref", "dyn")

    def __init__(self, ref, dyn=None):
        self.ref, self.dyn = ref, dyn

    def __repr__(self):
        return "Iface(%s%s)" % (self.ref, "" if self.dyn is None else " :" + self.dyn[0].rsplit("/", 1)[-1])


class SliceV:
    __slots__ = ("t", "len", "seq", "nil")

    def __init__(self, t, ln, seq, nil):
        self.t, self.len, self.seq, self.nil = t, ln, seq, nil

    def __repr__(self):
        return "Slice(len=%s,%r)" % (self.len, self.seq)


class MapV:
    __slots__ = ("t", "cell", "nil", "ref")

    def __init__(self, t, cell, nil, ref):
        self.t, self.cell, self.nil, self.ref = t, cell, nil, ref

    def __repr__(self):
        return "Map(%s)" % (self.cell,)


class MapC:
    """map contents: base (symbolic id term or None for an empty map) plus an update list"""
    __slots__ = ("base", "ups", "kt", "vt")

    def __init__(self, base, ups, kt, vt):
        self.base, self.ups, self.kt, self.vt = base, ups, kt, vt


class FuncV:
    __slots__ = ("fn", "bindings", "ref", "bound", "t")

    def __init__(self, fn=None, bindings=(), ref=None, bound=None, t=None):
        self.fn, self.bindings, self.ref, self.bound, self.t = fn, bindings, ref, bound, t

    def __repr__(self):
        return "Func(%s)" % (self.fn or self.bound or self.ref,)


class ChanV:
    __slots__ = ("t", "ref", "nil", "ready")

    def __init__(self, t, ref, nil, ready=None):
        self.t, self.ref, self.nil, self.ready = t, ref, nil, ready

    def __repr__(self):
        return "Chan(%s)" % self.ref


class TupleV:
    __slots__ = ("items",)

    def __init__(self, items):
        self.items = list(items)

    def __repr__(self):
        return "Tuple%r" % (self.items,)


class OpaqueV:
    """a value the engine does not look into (range iterators etc.)"""
    __slots__ = ("kind", "data")

    def __init__(self, kind, data=None):
        self.kind, self.data = kind, data

    def __repr__(self):
        return "Opaque(%s)" % self.kind


# sequences (slice contents)
class SeqLit:
    __slots__ = ("items",)

    def __init__(self, items):
        self.items = list(items)

    def __repr__(self):
        return "SeqLit(%d)" % len(self.items)


class SeqSym:
    __slots__ = ("name", "args", "et")

    def __init__(self, name, args, et):
        self.name, self.args, self.et = name, args, et

    def __repr__(self):
        return "SeqSym(%s)" % self.name


class SeqApp:
    __slots__ = ("base", "blen", "items")

    def __init__(self, base, blen, items):
        self.base, self.blen, self.items = base, blen, list(items)

    def __repr__(self):
        return "SeqApp(%r,+%d)" % (self.base, len(self.items))


class SeqCat:
    """base[0:blen] followed by another sequence (append of a slice whose length is symbolic)"""
    __slots__ = ("base", "blen", "other")

    def __init__(self, base, blen, other):
        self.base, self.blen, self.other = base, blen, other


class SeqUpd:
    __slots__ = ("base", "idx", "val")

    def __init__(self, base, idx, val):
        self.base, self.idx, self.val = base, idx, val


class SeqIte:
    __slots__ = ("c", "a", "b")

    def __init__(self, c, a, b):
        self.c, self.a, self.b = c, a, b


class SeqOff:
    __slots__ = ("base", "off")

    def __init__(self, base, off):
        self.base, self.off = base, off


def is_z3(v):
    return isinstance(v, z3.ExprRef)


def to_bool(v):
    if isinstance(v, bool):
        return z3.BoolVal(v)
    return v


def to_int(v):
    if isinstance(v, int) and not isinstance(v, bool):
        return z3.IntVal(v)
    return v


def leaves(v, out=None):
    """flatten a value into its list of z3 leaves (used as UF arguments / map keys)"""
    if out is None:
        out = []
    if is_z3(v):
        out.append(v)
    elif isinstance(v, bool):
        out.append(z3.BoolVal(v))
    elif isinstance(v, int):
        out.append(z3.IntVal(v))
    elif isinstance(v, StructV):
        for k in v.f:
            leaves(v.f[k], out)
    elif isinstance(v, IfaceV):
        out.append(v.ref)
    elif isinstance(v, PtrV):
        out.append(v.ref)
    elif isinstance(v, (MapV, ChanV)):
        out.append(v.ref)
    elif isinstance(v, FuncV):
        if v.ref is not None:
            out.append(v.ref)
        else:
            out.append(z3.Const("fn!" + str(v.fn or v.bound), Ref))
    elif isinstance(v, SliceV):
        out.append(v.len)
        if isinstance(v.seq, SeqSym):
            out.extend(v.seq.args)
    elif isinstance(v, TupleV):
        for x in v.items:
            leaves(x, out)
    else:
        raise TypeError("leaves: %r" % (v,))
    return out
