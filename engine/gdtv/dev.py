"""developer driver: python3-vt -m gdtv.dev <ssa.json> [substring]"""
import sys, time, traceback, re
from .ir import IR
from .verify import Engine
from .state import Unsupported
from .spec import SpecError

def main():
    ir = IR(sys.argv[1])
    eng = Engine(ir)
    for e in eng.errors:
        print("CONTRACT ERROR", e)
    if eng.errors:
        return
    pat = sys.argv[2] if len(sys.argv) > 2 else ""
    rel = None
    only_lemmas = False
    if pat == "@lemmas":
        only_lemmas, pat = True, ""
    if pat.startswith("@locks"):
        rel = eng.lock_relevant_funcs()
        pat = pat[6:]
    for d in eng.decls:
        if d.kind not in ("func", "lemma", "coverage") or pat not in d.name:
            continue
        if rel is not None and (d.kind != "func" or d.attrs.get("full") not in rel):
            continue
        if only_lemmas and d.kind != "lemma":
            continue
        if d.kind == "func" and (("effectfree" in d.flags and not d.tags) or "assumed" in d.flags or "opaque" in d.flags):
            continue
        t0 = time.time()
        eng.deadline = time.time() + 60
        try:
            if d.kind == "coverage":
                eng.verify_coverage(d); info = "coverage"
            elif d.kind == "lemma":
                eng.verify_lemma(d); info = "lemma"
            else:
                info = eng.verify_function(d)
            print("== %s: %s (%.2fs)" % (d.name, info, time.time() - t0))
        except (Unsupported, SpecError) as e:
            print("== %s: UNSUPPORTED %s" % (d.name, e))
            eng.cur = None
        except Exception:
            print("== %s: CRASH" % d.name)
            traceback.print_exc()
            eng.cur = None
    for o in eng.obls.values():
        fpart, _, opart = o.name.rpartition("/")
        import os
        if pat and not os.environ.get("GDTV_PRINT_ALL") and pat not in o.name and pat not in (re.sub(r"[\w\-]+/", "", fpart) + "/" + opart): continue
        if rel is not None and o.kind not in ("lock", "ownership", "lock-inv", "guarantee", "pre", "blocking", "coverage"): continue
        if o.verdict == "discharged" and o.covered is not False and "-v" not in sys.argv: continue
        print("  %-10s %s inst=%d ms=%.0f %s" % (o.verdict, o.name, o.instances, o.ms, "" if o.covered is not False else "VACUOUS-ANTECEDENT"))
        for f in o.failed[:1]:
            print("      FAIL", str({k: v for k, v in f.items() if k not in ("smt2", "model")})[:900], str({k: v for k, v in (f.get("model") or {}).items() if "#" not in k and "!" not in k})[:400])
        for f in o.unknown[:1]:
            print("      UNKNOWN", {k: v for k, v in f.items() if k != "smt2"})
    n = sum(1 for o in eng.obls.values() if o.verdict == "discharged")
    print("obligations %d discharged %d" % (len(eng.obls), n))
    print("stats", dict(eng.stats))
    print("unmodelled", sorted(eng.unmodelled))
    for e in eng.errors: print("ERR", e)
    for n in eng.init_notes: print("INIT", n)

main()
