"""Property check driver: ./check <Cxx> quick|thorough  (see DESIGN.md 2.7-2.10, 5)."""
import sys, os, json, time, shutil, traceback, hashlib, multiprocessing as mp

VERIF = os.environ.get("VERIF_ROOT", "/verif")
REPO = os.environ.get("VERIF_REPO", "/repo")

_G = {}


def _relevant(decl, prop):
    if prop in (decl.tags or []):
        return True
    return any(prop in (c.tags or []) for c in decl.clauses)


def _work_one(idx):
    """verify declaration idx in a forked worker; returns serialisable obligation records"""
    from .verify import Engine
    from .state import Unsupported
    from .spec import SpecError
    eng = _G["eng"]
    d = eng.decls[idx]
    eng.obls = {}
    eng.stats.clear()
    eng.abstracted = set()
    eng.unmodelled = set()
    eng.used_contracts = set()
    t0 = time.time()
    eng.deadline = time.time() + (120 if os.environ.get("VERIF_TIER") != "thorough" else 600)
    rec = {"decl": d.name, "kind": d.kind, "status": "ok", "info": None, "file": d.file, "line": d.line}
    try:
        if d.kind == "lemma":
            eng.verify_lemma(d)
        elif d.kind == "history":
            eng.verify_history(d)
        elif d.kind == "coverage":
            eng.verify_coverage(d)
        elif d.kind == "frame":
            eng.verify_frame(d)
        else:
            rec["info"] = eng.verify_function(d)
            fn = eng.ir.funcs.get(d.attrs["full"])
            if fn:
                rec["pos"] = fn["pos"]
                rec["instrs"] = sum(len(b["instrs"]) for b in fn["blocks"])
    except (Unsupported, SpecError) as e:
        rec["status"] = "stale"
        rec["error"] = "%s: %s" % (type(e).__name__, e)
    except RecursionError as e:
        rec["status"] = "stale"
        rec["error"] = "recursion limit"
    except Exception as e:
        rec["status"] = "crash"
        rec["error"] = traceback.format_exc()[-2000:]
    eng.cur = None
    obls = []
    for o in eng.obls.values():
        sample = None
        if o.sample is not None and o.kind in ("ensures", "lemma", "pre", "inv-step", "inv-init", "corollary"):
            try:
                sample = o.sample.to_smt2()
                if len(sample) > 6000:
                    sample = sample[:6000] + "\n; ... truncated"
            except Exception:
                sample = None
        obls.append({"name": o.name, "kind": o.kind, "props": sorted(o.props), "verdict": o.verdict, "instances": o.instances,
                     "proved": o.proved, "ms": round(o.ms, 2), "solver": o.solver, "covered": o.covered,
                     "failed": [{k: (v if k != "smt2" or v is None else v[:20000]) for k, v in f.items()} for f in o.failed[:4]],
                     "unknown": [{k: (v if k != "smt2" or v is None else v[:20000]) for k, v in f.items()} for f in o.unknown[:4]],
                     "sample": sample})
    rec["obls"] = obls
    rec["secs"] = round(time.time() - t0, 3)
    rec["stats"] = dict(eng.stats)
    rec["abstracted"] = sorted(eng.abstracted)
    rec["unmodelled"] = sorted(eng.unmodelled)
    rec["used_contracts"] = sorted(eng.used_contracts)
    rec["notes"] = []
    return rec


def load_meta():
    with open(os.path.join(VERIF, "props_meta.json")) as f:
        return json.load(f)


def load_known():
    p = os.path.join(VERIF, "known_findings.json")
    if not os.path.exists(p):
        return []
    with open(p) as f:
        return json.load(f)


def witness_matches(entry, ob, fail):
    """a known-finding entry covers a failure only if obligation name and witness class agree"""
    if entry.get("state") != "known" or entry.get("obligation") != ob["name"]:
        return False
    w = entry.get("witness") or {}
    if "pairs" in w:
        return [fail.get("event"), fail.get("status")] in w["pairs"]
    if "events" in w:
        return fail.get("event") in w["events"] and ("statuses" not in w or fail.get("status") in w["statuses"])
    if "pos_suffix" in w:
        return str(fail.get("pos") or "").split("/")[-1].split(":")[0] == w["pos_suffix"]
    if "fields" in w:
        return all(fail.get(k) == v for k, v in w["fields"].items())
    if "any" in w:
        return True
    return False


def main(argv):
    if len(argv) < 3:
        print("usage: check <Cxx> quick|thorough [--replay path]")
        return 2
    prop, tier = argv[1], argv[2]
    if tier == "--replay":
        from . import replay
        return replay.rerun(prop, argv[3])
    seed = int(os.environ.get("VERIF_SEED", "0") or 0)
    t_start = time.time()
    from .ir import IR, run_gofront
    from .verify import Engine
    from . import solve
    meta = load_meta().get(prop)
    if meta is None:
        print("property %s is not claimed" % prop)
        return 2
    run_dir = os.path.join(VERIF, "work", "run-%s-%d" % (prop, os.getpid()))
    os.makedirs(run_dir, exist_ok=True)
    solve.WORK = run_dir
    try:
        return _run(prop, tier, seed, meta, run_dir, t_start)
    finally:
        shutil.rmtree(run_dir, ignore_errors=True)


def _run(prop, tier, seed, meta, run_dir, t_start):
    from .ir import IR, run_gofront
    from .verify import Engine
    ssa = os.path.join(run_dir, "ssa.json")
    try:
        front_s, front_msg = run_gofront(REPO, ssa, VERIF)
    except RuntimeError as e:
        print("MACHINERY-ERROR front-end: %s" % e)
        return 2
    ir = IR(ssa)
    timeout_ms = 10000 if tier == "quick" else 60000
    eng = Engine(ir, timeout_ms=timeout_ms)
    if eng.errors:
        for e in eng.errors:
            print("CONTRACT-STALE %s" % e)
        return 2
    _G["eng"] = eng
    lockrel = eng.lock_relevant_funcs() if prop == "C20" else set()
    idxs = [i for i, d in enumerate(eng.decls) if d.kind in ("func", "lemma", "history", "coverage", "frame")
            and (_relevant(d, prop) or (d.kind == "func" and d.attrs.get("full") in lockrel))
            and not (d.kind == "func" and (("effectfree" in d.flags and not d.tags) or "assumed" in d.flags or "opaque" in d.flags))]
    declared = 0
    for i in idxs:
        d = eng.decls[i]
        declared += sum(1 for c in d.clauses if c.kind in ("ensures", "lemma", "history", "coverage", "frame") and prop in (c.tags or d.tags))
    # warm the package initialisers once before forking
    try:
        from .fsm import FSM
        eng.fsm = FSM(eng)
    except Exception as e:
        print("MACHINERY-ERROR fsm extraction: %s" % e)
        return 2
    for pkg in ir.packages:
        try:
            eng.ensure_init(pkg)
        except Exception:
            pass
    nproc = min(16, max(1, len(idxs)))
    if nproc > 1:
        ctx = mp.get_context("fork")
        with ctx.Pool(nproc) as pool:
            recs = pool.map(_work_one, idxs, chunksize=1)
    else:
        recs = [_work_one(i) for i in idxs]

    known = load_known()
    stale = [r for r in recs if r["status"] != "ok"]
    obls = []
    for r in recs:
        for o in r["obls"]:
            if prop in o["props"]:
                o["decl"] = r["decl"]
                obls.append(o)
    violations = []
    known_lines = []
    undecided = []
    for o in obls:
        if o["verdict"] == "failed":
            for f in o["failed"]:
                ent = [e for e in known if e.get("property") == prop and witness_matches(e, o, f)]
                if ent:
                    known_lines.append((o, f, ent[0]))
                else:
                    violations.append((o, f))
        elif o["verdict"] == "unknown":
            for f in o["unknown"]:
                violations.append((o, dict(f, undecided=True)))
        elif o["verdict"] == "no-instance":
            undecided.append(o)
        if o.get("covered") is False:
            stale.append({"decl": o["name"], "status": "vacuous", "error": "antecedent of %s is unsatisfiable on every path" % o["name"]})

    # thorough: cross-check every sampled obligation with all three solvers; run must-fail corpus
    extra = {}
    if tier == "thorough":
        from . import thorough
        extra = thorough.run(prop, eng, obls, recs, run_dir, seed)
        for v in extra.get("violations", []):
            violations.append(v)
        for s in extra.get("machinery_errors", []):
            stale.append({"decl": s, "status": "selftest", "error": s})

    # replay files and output lines
    from . import replay
    exit_code = 0
    seen = set()
    for (o, f, ent) in known_lines:
        key = (o["name"], ent.get("what_fails"))
        if key in seen:
            continue
        seen.add(key)
        print("KNOWN-FINDING: property=%s %s [%s]" % (prop, ent.get("what_fails"), o["name"]))
    vseen = set()
    for (o, f) in violations:
        if o["name"] in vseen:
            continue
        vseen.add(o["name"])
        path, confirmed = replay.write_replay(prop, o, f, eng, run_dir)
        suffix = "" if confirmed else " no-failing-input-found"
        print("VIOLATION property=%s replay=%s%s" % (prop, path, suffix))
        print("  obligation %s: %s" % (o["name"], replay.describe(f)))
        exit_code = 1

    # obligations whose only failures are listed known findings are reported separately, not counted as proved
    kf_names = set(o["name"] for (o, f, e) in known_lines) - set(o["name"] for (o, f) in violations)
    n_obl = len([o for o in obls if o["name"] not in kf_names])
    n_dis = sum(1 for o in obls if o["verdict"] == "discharged")
    wall = time.time() - t_start
    level = meta["level"]
    trusted = list(meta.get("trusted_base", []))
    used = sorted(set(x for r in recs for x in r["used_contracts"]))
    trusted += ["assumed contract: " + u for u in used if u.startswith("extern ")]
    seen_t = set()
    cons = {}
    for d0 in eng.decls:
        if d0.kind == "func" and d0.get("constructor"):
            f0 = ir.funcs.get(d0.attrs.get("full"))
            txt = d0.get("constructor")[0].text.split("--")[0].strip()
            try:
                rt0 = eng.resolve_type_name(txt, d0.pkg) if txt else (ir.types.get(ir.under(f0["results"][0]["type"]), {}).get("elem") if f0 and f0["results"] else None)
            except Exception:
                rt0 = None
            if rt0:
                cons.setdefault(rt0, []).append(d0.name)
    for i in idxs:
        d = eng.decls[i]
        fn = ir.funcs.get(d.attrs.get("full")) if d.kind == "func" else None
        if fn and fn.get("recv"):
            rt = ir.types.get(ir.under(fn["params"][0]["type"]), {}).get("elem")
            td = eng.type_invs.get(rt)
            if td is not None and rt not in seen_t:
                seen_t.add(rt)
                for cl in td.clauses:
                    if cl.kind == "nonnil":
                        how = ("proved on the constructor(s) %s (valid[...] obligations, C20 run)" % ", ".join(cons[rt])) if rt in cons else "established by constructors that are not under contract"
                        trusted.append("data-structure validity assumed at function entry (%s): %s fields %s non-nil" % (how, td.name, cl.text.split("--")[0].strip()))
                    elif cl.kind == "invariant" and not cl.extra.get("lock"):
                        trusted.append("data-structure validity assumed at function entry and re-proved on exit by every function that writes the object: %s [%s]" % (td.name, cl.label))
    for i in idxs:
        d = eng.decls[i]
        for cl in d.clauses:
            if cl.kind == "after":
                trusted.append("assumed fact about a callee outside the verified set: after %s [%s] in %s" % (cl.extra.get("pattern"), cl.label, d.name))
            elif cl.kind == "assume":
                trusted.append("assumed at entry of %s: %s" % (d.name, cl.text[:120]))
    ev = {
        "property_id": prop, "tier": tier, "seed": seed, "level": level, "wall_s": round(wall, 2),
        "violations": len(vseen),
        "coverage": {
            "obligations": n_obl, "discharged": n_dis, "exhaustive": False,
            "checker_cmd": "./check %s %s" % (prop, tier),
            "trusted_base": trusted,
            "explanation": meta.get("explanation", ""),
            "functions_under_contract": [{"name": r["decl"], "kind": r["kind"], "pos": r.get("pos"), "instrs": r.get("instrs"),
                                          "paths": (r.get("info") or {}).get("paths"), "secs": r["secs"], "status": r["status"]} for r in recs],
            "per_obligation": [{"name": o["name"], "kind": o["kind"], "verdict": o["verdict"], "instances": o["instances"],
                                "solver": o["solver"], "ms": o["ms"]} for o in obls],
            "solver_ms_total": round(sum(o["ms"] for o in obls), 1),
            "front_end_s": round(front_s, 2),
            "known_findings_reported": sorted(set("%s" % o["name"] for (o, f, e) in known_lines)),
            "obligations_failing_only_on_known_findings": sorted(kf_names),
            "obligations_generated_including_known_findings": len(obls),
            "not_decided": meta.get("not_decided", []),
            "abstracted_constructs": sorted(set(x for r in recs for x in r["abstracted"]))[:80],
            "calls_without_contract_logged_as_effects": sorted(set(x for r in recs for x in r["unmodelled"]))[:80],
            "contracts_applied_at_call_sites": used,
            "bounded": sorted(set(str(n) for r in recs for n in r.get("notes", []))),
            "samples": [{"obligation": o["name"], "smt2": o["sample"]} for o in obls if o.get("sample")][:3] or
                       [{"obligation": o["name"], "verdict": o["verdict"]} for o in obls[:3]],
        },
        "assumptions": meta.get("assumptions", []),
    }
    ev["coverage"].update(extra.get("coverage", {}))
    if level != "proof":
        ev["coverage"]["evaluations"] = n_obl
        ev["coverage"]["distinct_nontrivial"] = n_dis
        ev["coverage"]["rule"] = "one evaluation per named obligation (clause of a contract, lemma, safety/frame condition); distinct by obligation name; non-trivial = generated from at least one path and discharged by an SMT solver"
    evdir = os.environ.get("VERIF_EVIDENCE_DIR") or os.path.join(VERIF, "evidence")
    os.makedirs(evdir, exist_ok=True)
    with open(os.path.join(evdir, prop + ".json"), "w") as f:
        json.dump(ev, f, indent=1)

    for s in stale:
        print("CONTRACT-STALE obligation=%s: %s" % (s["decl"], str(s.get("error"))[:300]))
    print("%s %s: %d obligations, %d discharged, %d violations, %d known findings, %d functions/lemmas, %.1fs" %
          (prop, tier, n_obl, n_dis, len(vseen), len(seen), len(recs), wall))
    if exit_code == 1:
        return 1
    if stale:
        return 2
    if n_obl == 0 or declared == 0:
        print("MACHINERY-ERROR no obligations generated for %s" % prop)
        return 2
    if undecided:
        for o in undecided:
            print("CONTRACT-STALE obligation=%s generated no instance" % o["name"])
        return 2
    return 0


if __name__ == "__main__":
    sys.exit(main(sys.argv))
