"""Hand-written models of standard-library / dependency functions (part of the trusted base)."""
import z3
from .vals import *
from .state import Unsupported, Ev
from .ir import short

MODELS = {}


def model(*names):
    def deco(f):
        for n in names:
            MODELS[n] = f
        return f
    return deco


def fresh_err(st, hint="err"):
    ref = z3.Const(fresh_name(hint), Ref)
    st.assume(ref != NIL)
    st.assume(uf("is_sentinel", [Ref], z3.BoolSort())(ref) == False)
    return IfaceV(ref, None)


@model("errors.New", "golang.org/x/xerrors.New")
def _errors_new(eng, fr, st, name, args, rtypes, ins):
    e = fresh_err(st, "errNew")
    st.wraps[str(e.ref)] = []
    return [(st, e)]


@model("fmt.Errorf", "golang.org/x/xerrors.Errorf")
def _errorf(eng, fr, st, name, args, rtypes, ins):
    e = fresh_err(st, "errorf")
    wrapped = []
    # variadic args arrive as a slice of interfaces
    if len(args) > 1 and isinstance(args[1], SliceV) and isinstance(args[1].seq, SeqLit):
        fmt = args[0]
        haswrap = True
        for k, v in list(globals().get("_lits", {}).items()):
            pass
        for it in args[1].seq.items:
            if isinstance(it, IfaceV) and it.dyn is not None and isinstance(it.dyn[1], IfaceV):
                wrapped.append(it.dyn[1])
            elif isinstance(it, IfaceV) and it.dyn is None:
                wrapped.append(it)
    # only %w wraps; we over-approximate by letting every error-typed argument be wrapped *optionally*:
    fmt_s = lit_of(args[0])
    if fmt_s is not None and "%w" not in fmt_s:
        wrapped = []
    st.wraps[str(e.ref)] = wrapped
    return [(st, e)]


def lit_of(term):
    from .vals import _str_lits
    for s, c in _str_lits.items():
        if z3.eq(c, term):
            return s
    return None


ERRIS = None


def err_is(st, e, target):
    """errors.Is as a z3 Bool"""
    if not isinstance(e, IfaceV) or not isinstance(target, IfaceV):
        raise Unsupported("errors.Is on non-interface")
    base = e.ref == target.ref
    w = st.wraps.get(str(e.ref))
    if w is not None:
        parts = [z3.And(e.ref != NIL, base)]
        for x in w:
            parts.append(err_is(st, x, target))
        return z3.Or(*parts)
    f = uf("errIs", [Ref, Ref], z3.BoolSort())
    r = f(e.ref, target.ref)
    st.assume(z3.Implies(z3.And(e.ref != NIL, base), r))
    st.assume(z3.Implies(e.ref == NIL, z3.Not(r)))
    return r


@model("errors.Is", "golang.org/x/xerrors.Is")
def _errors_is(eng, fr, st, name, args, rtypes, ins):
    r = err_is(st, args[0], args[1])
    st.log("errors.Is", args, [r], ins.get("pos"), "read")      # visible to contracts as ret(errors.Is, 0); a read, not an effect
    return [(st, r)]


# ---------------------------------------------------------------- sync
def _lock_id(p):
    return (p.cell, p.path)


@model("(*sync.Mutex).Lock", "(*sync.RWMutex).Lock", "(*sync.RWMutex).RLock")
def _lock(eng, fr, st, name, args, rtypes, ins):
    eng.on_lock(fr, st, args[0], ins, "r" if name.endswith("RLock") else "w")
    return [(st, None)]


@model("(*sync.Mutex).Unlock", "(*sync.RWMutex).Unlock", "(*sync.RWMutex).RUnlock")
def _unlock(eng, fr, st, name, args, rtypes, ins):
    eng.on_unlock(fr, st, args[0], ins, "r" if name.endswith("RUnlock") else "w")
    return [(st, None)]


@model("sync/atomic.AddUint64", "sync/atomic.AddInt64", "sync/atomic.AddUint32", "sync/atomic.AddInt32")
def _atomic_add(eng, fr, st, name, args, rtypes, ins):
    p, d = args
    eng.on_atomic(fr, st, p, ins, "add")
    old = st.load(p)
    bits = 64 if "64" in name else 32
    new = (old + d) % (1 << bits) if "Uint" in name else old + d
    st.store(p, new)
    return [(st, new)]


@model("sync/atomic.LoadInt64", "sync/atomic.LoadUint64", "sync/atomic.LoadInt32", "sync/atomic.LoadUint32")
def _atomic_load(eng, fr, st, name, args, rtypes, ins):
    eng.on_atomic(fr, st, args[0], ins, "load")
    return [(st, st.load(args[0]))]


@model("sync/atomic.StoreInt64", "sync/atomic.StoreUint64", "sync/atomic.StoreInt32", "sync/atomic.StoreUint32")
def _atomic_store(eng, fr, st, name, args, rtypes, ins):
    eng.on_atomic(fr, st, args[0], ins, "store")
    st.store(args[0], args[1])
    return [(st, None)]


@model("sync/atomic.CompareAndSwapInt64", "sync/atomic.CompareAndSwapUint64", "sync/atomic.CompareAndSwapInt32")
def _atomic_cas(eng, fr, st, name, args, rtypes, ins):
    p, old, new = args
    eng.on_atomic(fr, st, p, ins, "cas")
    cur = st.load(p)
    ok = cur == old
    outs = []
    s_ok = st.clone()
    s_ok.assume(ok)
    if s_ok.feasible():
        s_ok.store(p, new)
        outs.append((s_ok, z3.BoolVal(True)))
    st.assume(z3.Not(ok))
    if st.feasible():
        outs.append((st, z3.BoolVal(False)))
    return outs


# ---------------------------------------------------------------- time / context
@model("time.Now")
def _time_now(eng, fr, st, name, args, rtypes, ins):
    v = st.fresh(rtypes[0], "now")
    st.ghost.setdefault("now_values", []).append(v)
    return [(st, v)]


@model("(time.Time).IsZero")
def _time_iszero(eng, fr, st, name, args, rtypes, ins):
    t = args[0]
    ls = leaves(t)
    f = uf("time.IsZero", [x.sort() for x in ls], z3.BoolSort())
    r = f(*ls)
    zl = leaves(st.zero(t.t))
    st.assume(f(*zl) == True)
    for nv in st.ghost.get("now_values", []):
        st.assume(f(*leaves(nv)) == False)
    return [(st, r)]


@model("(time.Time).UnixNano")
def _unixnano(eng, fr, st, name, args, rtypes, ins):
    ls = leaves(args[0])
    r = uf("time.UnixNano", [x.sort() for x in ls], z3.IntSort())(*ls)
    st.assume(z3.And(r >= -(1 << 63), r < (1 << 63)))
    return [(st, r)]


@model("context.WithCancel", "context.WithTimeout", "context.WithDeadline")
def _ctx_with(eng, fr, st, name, args, rtypes, ins):
    ctx = IfaceV(z3.Const(fresh_name("ctx"), Ref))
    st.assume(ctx.ref != NIL)
    if "Cancel" not in name:
        st.assume(uf("ctx.hasDeadline", [Ref], z3.BoolSort())(ctx.ref))
    cancel = FuncV(ref=z3.Const(fresh_name("cancel"), Ref), t=rtypes[1])
    st.assume(cancel.ref != NIL)
    st.ghost.setdefault("cancel_funcs", {})[str(cancel.ref)] = ctx
    # lineage: a derived context ends when its parent does; it is detached from every caller exactly if its parent is
    det = uf("ctx.detached", [Ref], z3.BoolSort())
    if args and isinstance(args[0], IfaceV):
        st.assume(det(ctx.ref) == det(args[0].ref))
    return [(st, TupleV([ctx, cancel]))]


@model("context.Background", "context.TODO", "context.WithoutCancel")
def _ctx_background(eng, fr, st, name, args, rtypes, ins):
    """a root context: never cancelled, no deadline, derived from nobody's context (`detached(c)` in contracts); WithoutCancel(parent) keeps
    the parent's values but not its cancellation, so it is detached too"""
    ctx = IfaceV(z3.Const(fresh_name("ctxroot"), Ref))
    st.assume(ctx.ref != NIL)
    st.assume(uf("ctx.detached", [Ref], z3.BoolSort())(ctx.ref))
    return [(st, ctx)]


@model("context.WithValue")
def _ctx_with_value(eng, fr, st, name, args, rtypes, ins):
    ctx = IfaceV(z3.Const(fresh_name("ctx"), Ref))
    st.assume(ctx.ref != NIL)
    det = uf("ctx.detached", [Ref], z3.BoolSort())
    if args and isinstance(args[0], IfaceV):
        st.assume(det(ctx.ref) == det(args[0].ref))
    return [(st, ctx)]


@model("(context.Context).Done")
def _ctx_done(eng, fr, st, name, args, rtypes, ins):
    ctx = args[0]
    ch = ChanV(rtypes[0], uf("ctx.Done", [Ref], Ref)(ctx.ref), False)
    return [(st, ch)]


@model("(context.Context).Err")
def _ctx_err(eng, fr, st, name, args, rtypes, ins):
    return [(st, IfaceV(uf("ctx.Err", [Ref], Ref)(args[0].ref)))]


@model("time.After")
def _time_after(eng, fr, st, name, args, rtypes, ins):
    ch = ChanV(rtypes[0], z3.Const(fresh_name("timer"), Ref), False, ready=True)
    eng.promise(st, ch)      # a timer channel delivers without further input
    st.log("time.After", args, [ch], ins.get("pos"), "read")    # visible to contracts (which timer, how long); a read, not an effect
    return [(st, ch)]


@model("time.Sleep")
def _time_sleep(eng, fr, st, name, args, rtypes, ins):
    """an uninterruptible (but bounded) wait: fails `cancellable ctx`, satisfies `prompt`"""
    eng.on_block(fr, st, ins, [("sleep", None)], True)
    st.log("time.Sleep", args, [], ins.get("pos"), "chan")
    return [(st, None)]


@model("time.NewTimer")
def _new_timer(eng, fr, st, name, args, rtypes, ins):
    v = st.fresh(rtypes[0], "timer")
    st.assume(z3.Not(to_bool(v.nil)))
    tv = st.load(v)
    if isinstance(tv, StructV) and "C" in tv.f and isinstance(tv.f["C"], ChanV):
        ch = tv.f["C"]
        st.assume(z3.Not(to_bool(ch.nil)))
        st.ghost.setdefault("ready_chans", set()).add(str(ch.ref))
    return [(st, v)]


@model("(*time.Timer).Stop", "(*time.Timer).Reset")
def _timer_stop(eng, fr, st, name, args, rtypes, ins):
    return [(st, z3.Const(fresh_name("timerstop"), z3.BoolSort()))]


@model("(error).Error")
def _error_error(eng, fr, st, name, args, rtypes, ins):
    return [(st, uf("m.Error", [Ref], Str)(args[0].ref))]


@model("github.com/ipfs/go-log/v2.Logger")
def _logger(eng, fr, st, name, args, rtypes, ins):
    v = st.fresh(rtypes[0], "logger")
    st.assume(z3.Not(to_bool(v.nil)))
    return [(st, v)]


def _bk_key(st, p):
    cell = p.cell
    if isinstance(cell, tuple) and len(cell) == 2 and cell[0] == "s":
        cell = cell[1]
    return ("backoff", (cell, tuple(p.path)))


@model("(*github.com/jpillora/backoff.Backoff).Duration")
def _backoff_duration(eng, fr, st, name, args, rtypes, ins):
    k = _bk_key(st, args[0])
    cur = st.ghost.get(k, z3.IntVal(0) if isinstance(args[0].cell, int) else z3.Const(fresh_name("attempt0"), z3.IntSort()))
    st.ghost[k] = cur + 1
    d = z3.Const(fresh_name("backoffdur"), z3.IntSort())
    return [(st, d)]


@model("(*github.com/jpillora/backoff.Backoff).Attempt")
def _backoff_attempt(eng, fr, st, name, args, rtypes, ins):
    k = _bk_key(st, args[0])
    if k not in st.ghost:
        st.ghost[k] = z3.IntVal(0) if isinstance(args[0].cell, int) else z3.Const(fresh_name("attempt0"), z3.IntSort())
        if not isinstance(args[0].cell, int):
            st.assume(st.ghost[k] >= 0)
    return [(st, z3.ToReal(st.ghost[k]))]


@model("fmt.Sprintf", "fmt.Sprint")
def _sprintf(eng, fr, st, name, args, rtypes, ins):
    """deterministic: the same format and arguments give the same string"""
    ls = []
    try:
        for a in args:
            if isinstance(a, SliceV):
                if isinstance(a.seq, SeqLit):
                    for it in a.seq.items:
                        ls.extend(leaves(it))
                else:
                    return NotImplemented
            else:
                ls.extend(leaves(a))
    except TypeError:
        return NotImplemented
    if not ls:
        return NotImplemented
    return [(st, uf(name + "/%d" % len(ls), [l.sort() for l in ls], Str)(*ls))]


# ---------------------------------------------------------------- errgroup (join of spawned goroutines)
@model("(*golang.org/x/sync/errgroup.Group).Go")
def _eg_go(eng, fr, st, name, args, rtypes, ins):
    """the function runs in a new goroutine; Wait joins it: what it may acquire is acquired, as far as lock order goes, by whoever waits"""
    f = args[1] if len(args) > 1 else None
    acq = None
    fname = None
    if isinstance(f, FuncV) and f.fn:
        fname = f.fn
        d = eng.contract_for(f.fn)
        if d is not None:
            acq = frozenset(d.attrs.get("acq") or ())
    if acq is None:
        acq = frozenset(["?effect-of-%s" % (short(fname) if fname else "a function value")])
    st.ghost["eg_joined"] = (st.ghost.get("eg_joined") or frozenset()) | acq
    st.log(fname or "dyn.func", list(f.bindings) if isinstance(f, FuncV) else [], [], ins.get("pos"), "go")
    return [(st, None)]


@model("(*golang.org/x/sync/errgroup.Group).Wait")
def _eg_wait(eng, fr, st, name, args, rtypes, ins):
    joined = st.ghost.get("eg_joined") or frozenset()
    for c in sorted(joined):
        eng.check_order(st, c, ins, via="errgroup.Wait (it joins goroutines that acquire that lock)")
    eng.note_acquired(st, [c for c in joined if not c.startswith("?")])
    e = st.fresh("error", "egerr")
    return [(st, e)]
