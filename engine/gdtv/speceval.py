"""Evaluation of contract expressions against a symbolic state (and an entry state for old())."""
import z3
from .vals import *
from .state import State, Unsupported, Ev
from .spec import SpecError
from .ir import short, MOD

TRACE_BUILTINS = {"ret_last", "ncalls", "notafter", "never", "count", "any", "all", "seq", "before", "untouched", "ret", "arg", "called", "last",
                  "calls", "only", "first", "spawned", "nth", "after_all"}


def uses_trace(ast):
    if not isinstance(ast, tuple):
        return False
    if ast[0] == "call" and ast[1][0] == "id" and (ast[1][1] in TRACE_BUILTINS or ast[1][1] == "now"):
        return True     # (now(i) speaks about this activation's own clock readings: never assumed at a call site)
    if ast[0] == "id" and ast[1] == "untouched":
        return True
    return any(uses_trace(x) for x in ast[1:] if isinstance(x, (tuple, list))) or \
        any(uses_trace(y) for x in ast[1:] if isinstance(x, list) for y in x)


def match_name(pattern, name):
    """pattern like SendMessage | Channels.Complete | (*channels.Channels).Complete | transport.CloseChannel"""
    s = short(name)
    if pattern in ("selectrecv", "selectsend"):     # the cases of a select are logged as select-recv / select-send (a hyphen is not a name character in contracts)
        pattern = "select-" + pattern[6:]
    if s == pattern or name == pattern:
        return True
    if pattern.endswith("*"):
        # prefix wildcard on the last component: RequestValidator.Validate*
        last = s.rsplit(".", 1)[-1]
        pl = pattern[:-1].rsplit(".", 1)[-1]
        if not last.startswith(pl):
            return False
        if "." not in pattern:
            return True
        pattern = pattern[:-1].rsplit(".", 1)[0] + "." + last
    if "." not in pattern and "(" not in pattern:
        return s.endswith("." + pattern) or s == pattern
    # Type.Method
    if s.endswith(")." + pattern.split(".")[-1]) or s.endswith("." + pattern.split(".")[-1]):
        tpart = pattern.rsplit(".", 1)[0]
        recv = s.rsplit(".", 1)[0]
        recv = recv.strip("()").lstrip("*")
        return recv.endswith("." + tpart) or recv == tpart or recv.endswith("/" + tpart)
    return False


def has_slice(v):
    if isinstance(v, SliceV):
        return v.nil is not True
    if isinstance(v, StructV):
        return any(has_slice(x) for x in v.f.values())
    return False


class UnreachableCtx(Exception):
    pass


class SpecCtx:
    def __init__(self, eng, st, entry, names, fr_pkg=None, trace=None, extra=None):
        self.eng, self.st, self.entry, self.names, self.pkg = eng, st, entry, names, fr_pkg
        self.trace = st.trace if trace is None else trace
        self.in_old = False
        self.bound = {}
        self.cur_ev = None
        self.leaf_types = {}
        self.name_types = {}
        self.pol = 1     # +1 goal position, -1 hypothesis position, 0 both

    def tag(self, v, t):
        if is_z3(v) and t:
            self.leaf_types[v.get_id()] = t
        elif isinstance(v, IfaceV) and t:
            self.leaf_types[("i", v.ref.get_id())] = t
        return v

    # ------------------------------------------------------------------
    def eval(self, a):
        k = a[0]
        st = self.entry if self.in_old else self.st
        if k == "num":
            return z3.IntVal(a[1])
        if k == "str":
            return str_lit(a[1])
        if k == "bool":
            return z3.BoolVal(a[1])
        if k == "nil":
            return ("nil",)
        if k == "wild":
            return ("wild",)
        if k == "id":
            return self.ident(a[1])
        if k == "dollar":
            n = a[1]
            if self.cur_ev is not None:
                sg = self.eng.sig_of(self.cur_ev.name)
                if n.isdigit():
                    v = self.cur_ev.args[int(n)]
                    if sg and int(n) < len(sg[0]):
                        self.tag(v, sg[0][int(n)])
                    return v
                if n.startswith("r") and n[1:].isdigit():
                    v = self.cur_ev.results[int(n[1:])]
                    if sg and int(n[1:]) < len(sg[1]):
                        self.tag(v, sg[1][int(n[1:])])
                    return v
            if "$" + n in self.names:
                return self.names["$" + n]
            if n == "i" and getattr(self, "loop_frame", None) is not None:
                fr = self.loop_frame
                for ins in fr.fn["blocks"][self.loop_head]["instrs"]:
                    if ins["op"] == "Phi" and (ins["aux"].get("comment") == "rangeindex"):
                        return to_int(fr.env[ins["name"]]) + 1
                raise SpecError("$i: the loop is not a range-over-slice loop")
            raise SpecError("unbound $" + n)
        if k == "old":
            prev = self.in_old
            self.in_old = True
            n0 = len(self.entry.pc)
            try:
                return self.eval(a[1])
            finally:
                self.in_old = prev
                if self.entry is not self.st and len(self.entry.pc) > n0:
                    # facts learned about uninterpreted values (ranges, nil <-> ref links) are unconditional truths
                    self.st.pc.extend(self.entry.pc[n0:])
        if k == "un":
            if a[1] == "!":
                self.pol = -self.pol
                try:
                    return z3.Not(to_bool(self.eval(a[2])))
                finally:
                    self.pol = -self.pol
            if a[1] == "-":
                return -to_int(self.eval(a[2]))
            if a[1] == "*":
                p = self.eval(a[2])
                return st.load(p)
        if k == "bin":
            return self.binop(a[1], a[2], a[3])
        if k == "ite":
            c = to_bool(self.eval(a[1]))
            cs = z3.simplify(c)
            if z3.is_true(cs):
                return self.eval(a[2])
            if z3.is_false(cs):
                return self.eval(a[3])
            x, y = self.eval(a[2]), self.eval(a[3])
            nilish = lambda v: isinstance(v, IfaceV) or (isinstance(v, tuple) and v and v[0] == "nil")
            if nilish(x) and is_z3(y):
                y = self.boxed(y)
            if nilish(y) and is_z3(x):
                x = self.boxed(x)
            x, y = self.coerce_nil(x, y), self.coerce_nil(y, x)
            return st.ite(c, x, y)
        if k == "sel":
            return self.select(a)
        if k == "idx":
            x = self.eval(a[1])
            i = self.eval(a[2])
            if isinstance(x, SliceV):
                return st.seq_read(x.seq, to_int(i), x.t)
            if isinstance(x, MapV):
                p, v = st.map_lookup(x, i)
                return st.ite(p, v, st.zero(self.eng.ir.types[self.eng.ir.under(x.t)]["elem"]))
            raise SpecError("index into %r" % type(x))
        if k == "call":
            return self.call(a)
        if k == "assert":
            x = self.eval(a[1])
            T = self.resolve_type(a[2])
            if self.eng.ir.is_iface(T):
                v = IfaceV(x.ref, x.dyn)
                self.leaf_types[("i", x.ref.get_id())] = T
                return v
            if x.dyn is not None and x.dyn[0] == T:
                return x.dyn[1]
            return self.eng.unbox(st, x.ref, T)
        if k == "lit":
            T = self.resolve_type(self.flat(a[1]))
            v = st.zero(T)
            for (fname, fe) in a[2]:
                fv = self.eval(fe)
                if isinstance(fv, tuple) and fv and fv[0] == "nil":
                    continue
                v = v.with_field(fname, fv)
            return v
        if k in ("forall", "exists"):
            return self.quant(a)
        raise SpecError("eval %r" % (a,))

    def resolve_type(self, name):
        ir = self.eng.ir
        ptr = name.startswith("*")
        n = name.lstrip("*")
        if "." in n:
            al, tn = n.split(".", 1)
            full = ir.alias.get(al, al) + "." + tn
            if full not in ir.types:
                for path in ir.dep_alias.get(al, []):
                    if path + "." + tn in ir.types:
                        full = path + "." + tn
        else:
            full = (self.pkg or "") + "." + n
            if full not in ir.types:
                full = n
        if ptr:
            full = "*" + full
        if full not in ir.types:
            raise SpecError("unknown type " + name)
        return full

    def ident(self, n):
        if n in self.bound:
            return self.bound[n]
        if n in self.names:
            return self.tag(self.names[n], self.name_types.get(n))
        if n == "untouched":
            return z3.BoolVal(all(e.kind in ("read",) for e in self.trace))
        ir = self.eng.ir
        if n in ir.alias:
            return ("pkg", ir.alias[n])
        if n in ir.dep_alias:
            return ("deppkg", n)
        # package-level const / var of current package
        if self.pkg:
            v = self.pkgmember(self.pkg, n)
            if v is not None:
                return v
        g = self.eng.ghost_value(self, n)
        if g is not None:
            return g
        v = self.pkgmember(MOD, n)
        if v is not None and (MOD + "." + n) in ir.consts:
            return v
        raise SpecError("unbound identifier %s" % n)

    def pkgmember(self, pkg, n):
        ir = self.eng.ir
        st = self.entry if self.in_old else self.st
        c = ir.consts.get(pkg + "." + n)
        if c is not None:
            return self.tag(self.eng.const(st, {"t": c["type"], "n": "int" if isinstance(c["v"], str) and c["v"].lstrip("-").isdigit() else ("bool" if isinstance(c["v"], bool) else "string"), "v": c["v"]}), c["type"])
        g = ir.globals.get(pkg + "." + n)
        if g is not None:
            u = ir.under(g["type"])
            p = PtrV(g["type"], ("g", g["name"]), (), False, z3.Const("gaddr!" + g["name"], Ref), ir.types[u]["elem"])
            return st.load(p)
        f = ir.funcs.get(pkg + "." + n)
        if f is not None:
            return FuncV(fn=f["name"])
        return None

    def dep_member(self, alias, n):
        """package variable of a dependency, by the last element of its import path"""
        st = self.entry if self.in_old else self.st
        for path in self.eng.ir.dep_alias.get(alias, []):
            c = self.eng.ir.consts.get(path + "." + n)
            if c is not None:
                return self.tag(self.eng.const(st, {"t": c["type"], "n": "int" if isinstance(c["v"], str) and c["v"].lstrip("-").isdigit() else ("bool" if isinstance(c["v"], bool) else "string"), "v": c["v"]}), c["type"])
            gname = path + "." + n
            if gname not in self.eng.global_types and gname in self.eng.ir.dep_vars:
                self.eng.global_types[gname] = self.eng.ir.dep_vars[gname]
            if gname in self.eng.global_types:
                return self.eng.global_value(st, gname)
        return None

    def select(self, a):
        st = self.entry if self.in_old else self.st
        base = self.eval(a[1])
        name = a[2]
        if isinstance(base, tuple) and base and base[0] == "pkg":
            v = self.pkgmember(base[1], name)
            if v is None:
                # an in-repo package may share its name with a dependency it imports (transport/graphsync vs go-graphsync)
                al = a[1][1] if a[1][0] == "id" else None
                if al:
                    v = self.dep_member(al, name)
            if v is None:
                raise SpecError("no member %s in %s" % (name, base[1]))
            return v
        if isinstance(base, tuple) and base and base[0] == "deppkg":
            v = self.dep_member(base[1], name)
            if v is None:
                raise SpecError("no package variable %s.%s used by the code" % (base[1], name))
            return v
        if isinstance(base, PtrV):
            base = st.load(base)
        if isinstance(base, StructV):
            if name in base.f:
                ft = [f["type"] for f in self.eng.ir.fields(base.t) if f["name"] == name]
                return self.tag(base.f[name], ft[0] if ft else None)
            # embedded
            for k, v in base.f.items():
                if isinstance(v, StructV) and name in v.f:
                    return v.f[name]
            raise SpecError("no field %s in %s" % (name, base.t))
        if isinstance(base, TupleV) and name.isdigit():
            return base.items[int(name)]
        if isinstance(base, SliceV) and name == "len":
            return base.len
        raise SpecError("select .%s on %r" % (name, type(base)))

    def binop(self, op, l, r):
        st = self.entry if self.in_old else self.st
        if op in ("&&", "||", "==>"):
            # short-circuit on concrete left operands (lets guards like count(X) >= 1 protect ret(X, i))
            if op == "==>":
                self.pol = -self.pol
            try:
                lv = to_bool(self.eval(l))
            finally:
                if op == "==>":
                    self.pol = -self.pol
            ls = z3.simplify(lv)
            if op == "&&":
                if z3.is_false(ls):
                    return z3.BoolVal(False)
                return z3.And(lv, to_bool(self.eval_under(lv, r)))
            if op == "||":
                if z3.is_true(ls):
                    return z3.BoolVal(True)
                return z3.Or(lv, to_bool(self.eval_under(z3.Not(lv), r)))
            if z3.is_false(ls):
                return z3.BoolVal(True)
            return z3.Implies(lv, to_bool(self.eval_under(lv, r)))
        if op == "<==>":
            sp = self.pol
            self.pol = 0
            try:
                return to_bool(self.eval(l)) == to_bool(self.eval(r))
            finally:
                self.pol = sp
        x, y = self.eval(l), self.eval(r)
        if op in ("==", "!="):
            e = self.eq(x, y)
            return e if op == "==" else z3.Not(e)
        x, y = to_int(x), to_int(y)
        if op == "+" and is_z3(x) and x.sort() == Str:
            return uf("strcat", [Str, Str], Str)(x, y)
        if op == "+":
            return x + y
        if op == "-":
            return x - y
        if op == "*":
            return x * y
        if op == "/":
            return x / y
        if op == "%":
            return x % y
        return {"<": x < y, "<=": x <= y, ">": x > y, ">=": x >= y}[op]

    def eval_under(self, assumption, a):
        """evaluate a sub-expression in a context where `assumption` holds (guards of pure calls / ret())"""
        if self.in_old or z3.is_true(z3.simplify(assumption)):
            return self.eval(a)
        pst = self.st
        s2 = pst.clone()
        n0 = len(s2.pc)
        s2.assume(assumption)
        self.st = s2
        try:
            return self.eval(a)
        except UnreachableCtx:
            return z3.BoolVal(True)     # the guard is unsatisfiable on this path: the guarded sub-formula is irrelevant
        finally:
            # facts learned while evaluating (ranges of UF values, lazily materialised cells, invariants) are unconditional
            pst.pc.extend(s2.pc[n0 + 1:])
            for k, v in s2.heap.items():
                pst.heap.setdefault(k, v)
            for k, v in s2.symcells.items():
                pst.symcells.setdefault(k, v)
            pst.ghost.update({k: v for k, v in s2.ghost.items() if k not in pst.ghost})
            self.st = pst

    def eq(self, x, y):
        st = self.st
        if isinstance(x, tuple) and x and x[0] == "wild" or isinstance(y, tuple) and y and y[0] == "wild":
            return z3.BoolVal(True)
        if isinstance(y, tuple) and y and y[0] == "nil":
            return self.is_nil(x)
        if isinstance(x, tuple) and x and x[0] == "nil":
            return self.is_nil(y)
        # a typed constant compared with an interface: box it the way the compiler does
        if isinstance(x, IfaceV) and is_z3(y) and y.get_id() in self.leaf_types and not self.eng.ir.is_iface(self.leaf_types[y.get_id()]):
            y = self.boxed(y)
        elif isinstance(y, IfaceV) and is_z3(x) and x.get_id() in self.leaf_types and not self.eng.ir.is_iface(self.leaf_types[x.get_id()]):
            x = self.boxed(x)
        # auto-unbox: comparing an interface holding a known concrete value with a concrete value
        if isinstance(x, IfaceV) and not isinstance(y, IfaceV):
            x = x.dyn[1] if x.dyn is not None else self.unbox_like(x, y)
        elif isinstance(y, IfaceV) and not isinstance(x, IfaceV):
            y = y.dyn[1] if y.dyn is not None else self.unbox_like(y, x)
        if isinstance(x, SliceV) and isinstance(y, SliceV) and x.nil is not True and y.nil is not True:
            if self.pol != 1:
                raise SpecError("slice equality may only be used in goal (positive) position")
            return self.deep_eq(x, y)
        if isinstance(x, StructV) and isinstance(y, StructV) and self.pol == 1 and has_slice(x):
            return self.deep_eq(x, y)
        return to_bool(st.eq(x, y))

    def unbox_like(self, iv, other):
        t = other.t if isinstance(other, (StructV, PtrV, SliceV)) else self.leaf_types.get(other.get_id()) if is_z3(other) else None
        if t is None:
            raise SpecError("cannot compare interface with untyped value")
        return self.eng.unbox(self.st, iv.ref, t)

    def boxed(self, v):
        """a typed constant (e.g. datatransfer.ErrPause, an errorType string) as the interface value Go would build"""
        t = self.leaf_types.get(v.get_id())
        if t is None or self.eng.ir.is_iface(t):
            raise SpecError("cannot box an untyped value")
        return self.eng.make_iface(self.st, t, v)

    def coerce_nil(self, x, other):
        if isinstance(x, tuple) and x and x[0] == "nil":
            if isinstance(other, IfaceV):
                return IfaceV(NIL, None)
            if isinstance(other, PtrV):
                return PtrV(other.t, None, (), True, NIL, other.roott)
            if isinstance(other, SliceV):
                return SliceV(other.t, z3.IntVal(0), SeqLit([]), True)
            raise SpecError("nil in a conditional of unknown type (other branch %r)" % (other,))
        return x

    def deep_eq(self, a, b):
        """equality that also compares slice contents at a fresh (skolem) index: goal position only"""
        st = self.st
        if isinstance(a, StructV) and isinstance(b, StructV):
            return z3.And(*[self.deep_eq(a.f[k], b.f[k]) for k in a.f])
        if isinstance(a, SliceV) and isinstance(b, SliceV):
            if a.seq is b.seq:
                return a.len == b.len
            k = z3.Const(fresh_name("k"), z3.IntSort())
            ea, eb = st.seq_read(a.seq, k), st.seq_read(b.seq, k)
            return z3.And(a.len == b.len, z3.Implies(z3.And(k >= 0, k < a.len), self.deep_eq(ea, eb)))
        return to_bool(st.eq(a, b))

    def is_nil(self, x):
        if isinstance(x, IfaceV):
            return x.ref == NIL
        if isinstance(x, (PtrV, SliceV, MapV, ChanV)):
            return to_bool(x.nil)
        if isinstance(x, FuncV):
            return z3.BoolVal(False) if x.ref is None else x.ref == NIL
        if isinstance(x, tuple) and x and x[0] == "nil":
            return z3.BoolVal(True)
        if isinstance(x, StructV) and self.cur_ev is not None:
            return z3.BoolVal(False)    # inside all/count over mixed trace entries (eg the cases of several selects): a struct value is never nil
        raise SpecError("nil comparison on %r" % type(x))

    def quant(self, a):
        st = self.st
        vs = []
        saved = dict(self.bound)
        consts = []
        for (x, T) in a[1]:
            if T in ("int", "int64", "uint64", "bool", "string"):
                t = T
            else:
                t = self.resolve_type(T)
            srt_val = st.from_uf(t, fresh_name("q_" + x), [])
            self.bound[x] = srt_val
            consts.extend(leaves(srt_val))
        # facts produced while building the bound values and evaluating the body (ranges, nil <-> ref links) mention the
        # bound constants: they belong inside the quantifier
        states = [self.st] + ([self.entry] if self.entry is not self.st else [])
        marks = [len(x.pc) for x in states]
        body = None
        try:
            body = to_bool(self.eval(a[2]))
        finally:
            self.bound = saved
        facts = []
        ids = set(c.get_id() for c in consts)

        def mentions(e):
            seen, stack = set(), [e]
            while stack:
                x = stack.pop()
                if x.get_id() in seen:
                    continue
                seen.add(x.get_id())
                if x.get_id() in ids:
                    return True
                stack.extend(x.children())
            return False
        for x, m0 in zip(states, marks):
            keep = []
            for f in x.pc[m0:]:
                (facts if mentions(f) else keep).append(f)
            del x.pc[m0:]
            x.pc.extend(keep)
        # the bound values themselves were created before `marks`: their range facts sit just below; harmless to leave
        if not consts:
            return body
        if a[0] == "forall":
            return z3.ForAll(consts, z3.Implies(z3.And(*facts), body) if facts else body)
        return z3.Exists(consts, z3.And(*(facts + [body])))

    # ------------------------------------------------------------------ calls in specs
    def call(self, a):
        st = self.entry if self.in_old else self.st
        f = a[1]
        args = a[2]
        if f[0] == "id":
            n = f[1]
            if n in TRACE_BUILTINS:
                return self.trace_builtin(n, args)
            if n == "len":
                x = self.eval(args[0])
                if isinstance(x, SliceV):
                    return x.len
                return self.eng.builtin(None, st, "len", [x], {"pos": ""})
            if n == "errIs":
                from .models import err_is
                return err_is(st, self.eval(args[0]), self.eval(args[1]))
            if n == "implements":
                x = self.eval(args[0])
                T = self.resolve_type(args[1][1] if args[1][0] == "id" else self.flat(args[1]))
                return self.eng.iface_implements(st, x, T)
            if n == "dyntype_is":
                x = self.eval(args[0])
                T = self.resolve_type(self.flat(args[1]))
                if x.dyn is not None:
                    return z3.BoolVal(x.dyn[0] == T)
                return z3.And(x.ref != NIL, dyntype(x.ref) == type_id(T))
            if n in ("seqEq", "recEq"):
                if self.pol != 1:
                    raise SpecError(n + " may only be used in goal (positive) position")
                return self.deep_eq(self.eval(args[0]), self.eval(args[1]))
            if n in self.eng.defines:
                params, body = self.eng.defines[n]
                if len(params) != len(args):
                    raise SpecError("define %s takes %d arguments" % (n, len(params)))
                vals = [self.eval(x) for x in args]
                saved = dict(self.bound)
                for pn, v in zip(params, vals):
                    self.bound[pn] = v
                try:
                    return self.eval(body)
                finally:
                    self.bound = saved
            if n == "elem":
                x = self.eval(args[0])
                return st.seq_read(x.seq, to_int(self.eval(args[1])), x.t)
            if n == "max":
                x, y = to_int(self.eval(args[0])), to_int(self.eval(args[1]))
                return z3.If(x > y, x, y)
            if n == "min":
                x, y = to_int(self.eval(args[0])), to_int(self.eval(args[1]))
                return z3.If(x < y, x, y)
            if n == "visited":
                vk = st.ghost.get("last_visited")
                if vk is None or vk not in st.ghost:
                    return z3.BoolVal(False)
                return self.eng.visited_pred(st, vk, self.eval(args[0]))
            if n == "backoffAttempts":
                from .models import _bk_key
                pv = self.eval(args[0])
                k = _bk_key(st, pv)
                if k not in st.ghost:
                    st.ghost[k] = z3.IntVal(0) if isinstance(pv.cell, int) else z3.Const(fresh_name("attempt0"), z3.IntSort())
                return st.ghost[k]
            if n == "holds":
                # holds(x.tok) / holds(tok) inside a type clause (self.tok)
                a0 = args[0]
                if a0[0] == "sel":
                    objp = self.eval(a0[1])
                    if isinstance(objp, StructV) and getattr(self, "token_obj", None) is not None:
                        objp = self.token_obj[0]
                    return self.eng.token_value(self, objp, a0[2])
                if a0[0] == "id" and getattr(self, "token_obj", None) is not None:
                    return self.eng.token_value(self, self.token_obj[0], a0[1])
                raise SpecError("holds(x.token) expected")
            if n == "now":          # now(i): the value of the i-th time.Now() of this activation
                vals = st.ghost.get("now_values") or []
                i = args[0][1] if args and args[0][0] == "num" else 0
                if i >= len(vals):
                    raise SpecError("now(%d): time.Now() was called %d time(s) on this path" % (i, len(vals)))
                return vals[i]
            if n == "unixnano":     # unixnano(t): t.UnixNano() (same uninterpreted function as the model of (time.Time).UnixNano)
                tv = self.eval(args[0])
                ls = leaves(tv)
                r = uf("time.UnixNano", [x.sort() for x in ls], z3.IntSort())(*ls)
                return r
            if n == "ismethod":     # ismethod(f, recv, M): f is the method value recv.M
                fv = self.eval(args[0])
                rv = self.eval(args[1])
                mname = self.flat(args[2])
                if not isinstance(fv, FuncV) or not fv.bound or not fv.bound.endswith("." + mname) or not fv.bindings:
                    return z3.BoolVal(False)
                return to_bool(self.eq(fv.bindings[0], rv))
            if n == "detached":     # detached(c): the context c descends from context.Background()/TODO(), not from any caller's context
                cv = self.eval(args[0])
                if not isinstance(cv, IfaceV):
                    raise SpecError("detached(): not a context value")
                return uf("ctx.detached", [Ref], z3.BoolSort())(cv.ref)
            if n == "isfunc":       # isfunc(f, pkg.Name): f is exactly the package-level function pkg.Name (no closure, no bound method)
                fv = self.eval(args[0])
                want = self.flat(args[1])
                if not isinstance(fv, FuncV) or not fv.fn or fv.bindings or fv.bound:
                    return z3.BoolVal(False)
                return z3.BoolVal(fv.fn == want or fv.fn.endswith("/" + want))
            if n == "held":
                p = self.eval_addr(args[0])
                return z3.BoolVal(self.eng.lock_key(st, p) in [h[0] for h in st.held])
            if n == "has":      # has(map, key)
                m, k = self.eval(args[0]), self.eval(args[1])
                return st.map_lookup(m, k)[0]
            if n == "wraps":
                from .models import err_is
                return err_is(st, self.eval(args[0]), self.eval(args[1]))
            g = self.eng.ghost_call(self, n, args)
            if g is not None:
                return g
            if n in self.names and isinstance(self.names[n], FuncV):
                fv = self.names[n]
                return self.pure_call(fv.fn, [self.eval(x) for x in args], freevars=list(fv.bindings))
            fn = self.eng.ir.funcs.get((self.pkg or "") + "." + n)
            if fn is None:
                raise SpecError("unknown function %s" % n)
            return self.pure_call(fn["name"], [self.eval(x) for x in args])
        if f[0] == "sel":
            base = self.eval(f[1])
            mname = f[2]
            if isinstance(base, tuple) and base and base[0] == "pkg":
                fn = self.eng.ir.funcs.get(base[1] + "." + mname)
                if fn is None:
                    v = self.pkgmember(base[1], mname)
                    if isinstance(v, FuncV) and v.fn:
                        return self.pure_call(v.fn, [self.eval(x) for x in args])
                    raise SpecError("unknown function %s.%s" % (base[1], mname))
                return self.pure_call(fn["name"], [self.eval(x) for x in args])
            avals = [self.eval(x) for x in args]
            return self.method(base, mname, avals)
        raise SpecError("call of %r" % (f,))

    def flat(self, a):
        if a[0] == "id":
            return a[1].replace("__STAR", "*")
        if a[0] == "sel":
            return self.flat(a[1]) + "." + a[2].replace("__STAR", "*")
        if a[0] == "un" and a[1] == "*":
            return "*" + self.flat(a[2])
        raise SpecError("not a name: %r" % (a,))

    def method(self, base, mname, avals):
        st = self.entry if self.in_old else self.st
        ir = self.eng.ir
        if isinstance(base, IfaceV):
            if base.dyn is not None:
                fname = ir.method_func(base.dyn[0], mname)
                if fname and fname in ir.funcs:
                    return self.pure_call(fname, [base.dyn[1]] + avals)
            stt = self.leaf_types.get(("i", base.ref.get_id()))
            sig = self.eng.ir.iface_method_sig(stt, mname) if stt and self.eng.ir.is_iface(stt) else None
            pu = self.eng.pure_uf(mname, sig)
            if pu is None:
                raise SpecError("method %s is not declared pure (or is ambiguous: static interface type of the receiver unknown)" % mname)
            name, rtypes = pu
            al = leaves(TupleV(avals)) if avals else []
            vals = [self.tag(st.from_uf(rt, name + ("#%d" % i if len(rtypes) > 1 else ""), [base.ref] + al), rt) for i, rt in enumerate(rtypes)]
            return vals[0] if len(vals) == 1 else TupleV(vals)
        t = None
        if isinstance(base, StructV):
            t = base.t
        elif isinstance(base, PtrV):
            t = base.t
        elif is_z3(base):
            t = self.leaf_types.get(base.get_id())
        if t is None:
            raise SpecError("method %s on %r" % (mname, type(base)))
        mkey = "(%s).%s" % (t, mname)
        if mkey in self.eng.models:
            fnm = self.eng.models[mkey]
            r = fnm(self.eng, None, st, mkey, [base] + avals, ["bool"], {"pos": "", "aux": {}})
            return r[0][1]
        fname = ir.method_func(t, mname)
        if fname is None and isinstance(base, PtrV):
            fname = ir.method_func(ir.types[ir.under(base.t)]["elem"], mname)
            if fname:
                base = st.load(base)
        if fname is None:
            raise SpecError("no method %s on %s" % (mname, t))
        return self.pure_call(fname, [base] + avals)

    hint_type = None

    def typed_method(self, t, base, mname, avals):
        fname = self.eng.ir.method_func(t, mname)
        return self.pure_call(fname, [base] + avals)

    def pure_call(self, fname, avals, freevars=None):
        """symbolically execute a side-effect-free function and merge its paths into one term"""
        st = self.entry if self.in_old else self.st
        eng = self.eng
        fn = eng.ir.funcs.get(fname)
        if fn is None:
            raise SpecError("no body for %s" % fname)
        # coerce untyped args
        s0 = st.clone()
        base_len = len(s0.pc)
        s0.trace = []
        fr_args = []
        for p, v in zip(fn["params"], avals):
            if isinstance(v, tuple) and v and v[0] == "nil":
                v = s0.zero(p["type"])
            fr_args.append(v)
        saved_hooks = eng.quiet
        eng.quiet = True
        try:
            outs = eng.run(fn, fr_args, s0, depth=1, freevars=freevars, stack=("spec",))
        finally:
            eng.quiet = saved_hooks
        res = None
        rets = [o for o in outs if o.kind == "ret"]
        if not rets:
            if not st.feasible():
                # unreachable context: any value will do
                return st.from_uf(fn["results"][0]["type"], fresh_name("unreach"), []) if len(fn["results"]) == 1 else \
                    TupleV([st.from_uf(r["type"], fresh_name("unreach"), []) for r in fn["results"]])
            raise SpecError("pure call %s has no returning path" % short(fname))
        for o in reversed(rets):
            cond = z3.And(*o.st.pc[base_len:]) if len(o.st.pc) > base_len else z3.BoolVal(True)
            v = o.results[0] if len(o.results) == 1 else TupleV(o.results)
            res = v if res is None else st.ite(cond, v, res)
        if len(fn["results"]) == 1:
            self.tag(res, fn["results"][0]["type"])
        return res

    def eval_addr(self, a):
        """address of an lvalue expression (for modifies / held)"""
        st = self.st
        if a[0] == "sel":
            base = self.eval(a[1])
            if isinstance(base, PtrV):
                return PtrV(None, base.cell, base.path + (a[2],), False, z3.Const(fresh_name("a"), Ref), base.roott)
            raise SpecError("address of field of non-pointer")
        if a[0] == "un" and a[1] == "*":
            return self.eval(a[2])
        v = self.eval(a)
        if isinstance(v, (PtrV, MapV)):
            return v
        raise SpecError("not addressable: %r" % (a,))

    # ------------------------------------------------------------------ trace predicates
    def events(self, pat):
        name = self.flat(pat) if pat[0] != "str" else pat[1]
        kinds = None
        if name.startswith("go:"):
            name = name[3:]
        return [e for e in self.trace if match_name(name, e.name)]

    def with_ev(self, ev, cond_ast):
        """evaluate a condition about one trace entry in the heap as it was when the call was made"""
        prev, pst = self.cur_ev, self.st
        self.cur_ev = ev
        if ev.snap is not None:
            s2 = self.st.clone()
            s2.heap = dict(ev.snap)
            for k, v in self.st.heap.items():
                s2.heap.setdefault(k, v)
            if ev.held is not None:
                s2.held = list(ev.held)     # held(x.lk) inside all(F, ...) / first / last: the locks held when the call was made
            self.st = s2
        try:
            return to_bool(self.eval(cond_ast))
        finally:
            if self.st is not pst:
                # keep facts (range assumptions, lazily materialised cells) learned during evaluation
                pst.pc.extend(self.st.pc[len(pst.pc):])
                for k, v in self.st.heap.items():
                    pst.heap.setdefault(k, v)
                for k, v in self.st.symcells.items():
                    pst.symcells.setdefault(k, v)
            self.cur_ev, self.st = prev, pst

    def trace_builtin(self, n, args):
        st = self.st
        if n == "never":
            out = []
            for p in args:
                out.append(len(self.events(p)) == 0)
            return z3.BoolVal(all(out))
        if n == "count":
            evs = self.events(args[0])
            if len(args) > 1:
                return z3.Sum([z3.If(self.with_ev(e, args[1]), 1, 0) for e in evs]) if evs else z3.IntVal(0)
            return z3.IntVal(len(evs))
        if n == "called":
            # called(Name, a0, a1, ...): some call of Name whose arguments equal the given ones (_ = any)
            evs = self.events(args[0])
            alts = []
            for e in evs:
                conj = []
                for i, x in enumerate(args[1:]):
                    if x[0] == "wild":
                        continue
                    if i >= len(e.args):
                        conj.append(z3.BoolVal(False))
                        continue
                    conj.append(self.eq(e.args[i], self.eval(x)))
                alts.append(z3.And(*conj) if conj else z3.BoolVal(True))
            return z3.Or(*alts) if alts else z3.BoolVal(False)
        if n == "any":
            evs = self.events(args[0])
            return z3.Or(*[self.with_ev(e, args[1]) for e in evs]) if evs else z3.BoolVal(False)
        if n == "all":
            evs = self.events(args[0])
            return z3.And(*[self.with_ev(e, args[1]) for e in evs]) if evs else z3.BoolVal(True)
        if n == "only":
            # only(A, B, ...): every effect entry is one of these
            ok = True
            for e in self.trace:
                if e.kind in ("read", "loopcut"):
                    continue      # the generic iteration after a loop cut stands for every iteration
                if not any(match_name(self.flat(p), e.name) for p in args):
                    ok = False
            return z3.BoolVal(ok)
        if n == "seq":
            # the effect entries (reads excluded) are exactly these names in this order
            eff = [e for e in self.trace if e.kind != "read"]
            if len(eff) != len(args):
                return z3.BoolVal(False)
            return z3.BoolVal(all(match_name(self.flat(p), e.name) for p, e in zip(args, eff)))
        if n == "before":
            # before(A, B): every B entry is preceded by some A entry
            names_a, names_b = self.flat(args[0]), self.flat(args[1])
            seen_a = False
            ok = True
            for e in self.trace:
                if match_name(names_a, e.name):
                    seen_a = True
                if match_name(names_b, e.name) and not seen_a:
                    ok = False
            return z3.BoolVal(ok)
        if n == "ret_last":
            evs = self.events(args[0])
            if not evs:
                if not self.st.feasible():
                    raise UnreachableCtx()
                raise SpecError("ret_last(%s): no such call on this path" % self.flat(args[0]))
            e = evs[-1]
            v = e.results[args[1][1]]
            sg = self.eng.sig_of(e.name)
            if sg is not None and args[1][1] < len(sg[1]):
                self.tag(v, sg[1][args[1][1]])
            return v
        if n == "ncalls":
            # symbolic call counter (survives loop cuts, unlike calls() which counts the entries of this path's trace)
            pat = self.flat(args[0])
            tot = z3.IntVal(0)
            for k, v in st.ghost.items():
                if isinstance(k, tuple) and k[0] == "ncalls" and match_name(pat, k[1]):
                    tot = tot + v
            # callees that may be called inside a cut loop but were not called before it
            for nm in st.ghost.get("loop_callees", ()):
                if match_name(pat, nm) and ("ncalls", nm) not in st.ghost:
                    pass
            return z3.simplify(tot)
        if n == "notafter":
            # notafter(A, B): no A entry occurs after a B entry
            na, nb = self.flat(args[0]), self.flat(args[1])
            seen_b, ok = False, True
            for e in self.trace:
                if match_name(nb, e.name):
                    seen_b = True
                elif match_name(na, e.name) and seen_b:
                    ok = False
            return z3.BoolVal(ok)
        if n == "last":
            eff = [e for e in self.trace if e.kind != "read"]
            if not eff:
                return z3.BoolVal(False)
            ok = match_name(self.flat(args[0]), eff[-1].name)
            if ok and len(args) > 1:
                return self.with_ev(eff[-1], args[1])
            return z3.BoolVal(ok)
        if n == "first":
            eff = [e for e in self.trace if e.kind != "read"]
            if not eff:
                return z3.BoolVal(False)
            ok = match_name(self.flat(args[0]), eff[0].name)
            if ok and len(args) > 1:
                return self.with_ev(eff[0], args[1])
            return z3.BoolVal(ok)
        if n == "ret" or n == "arg":
            evs = self.events(args[0])
            idx = args[1][1]
            which = args[2][1] if len(args) > 2 else 0
            if len(evs) <= which:
                if not self.st.feasible():
                    raise UnreachableCtx()
                raise SpecError("%s(%s): no such call on this path" % (n, self.flat(args[0])))
            e = evs[which]
            v = e.results[idx] if n == "ret" else e.args[idx]
            sg = self.eng.sig_of(e.name)
            if sg is not None:
                ts = sg[1] if n == "ret" else sg[0]
                if idx < len(ts):
                    self.tag(v, ts[idx])
            return v
        if n == "calls":
            return z3.IntVal(len(self.events(args[0])))
        if n == "spawned":
            evs = [e for e in self.trace if e.kind == "go" and match_name(self.flat(args[0]), e.name)]
            return z3.BoolVal(len(evs) > 0)
        if n == "untouched":
            return z3.BoolVal(all(e.kind == "read" for e in self.trace))
        raise SpecError("trace builtin " + n)
