"""Contract files: parser for the //@ comment language (Gobra-flavoured) and its expression grammar."""
import re

KEYWORDS = ("func", "extern", "interface", "type", "lemma", "requires", "ensures", "modifies", "pure",
            "reads", "inline", "invariant", "loop", "assume", "history", "frame", "effectfree", "ghost",
            "lock", "atomic", "axiom", "nopanic", "refuses", "acquires", "cancellable", "table", "action", "define",
            "fresh", "terminates", "opaque", "nonnil", "callsite", "coverage", "returns", "blocking", "noreturn", "after", "guarantee", "rely", "token",
            "invokes", "prompt", "promises", "refines", "locked", "rlocked", "establishes", "constructor")

TOK = re.compile(r"""
    (?P<ws>\s+)
  | (?P<num>\d+)
  | (?P<str>"(?:[^"\\]|\\.)*")
  | (?P<op><==>|==>|\|\||&&|==|!=|<=|>=|::|[-+*/%<>!?:(),.\[\]{}_]|\$)
  | (?P<id>[A-Za-z_][A-Za-z_0-9]*(?:\$\d+)*)
  | (?P<star>\*)
""", re.X)


class SpecError(Exception):
    pass


def tokenize(s):
    s = re.sub(r"(\w)\*(?=\s*[,)])", r"\1__STAR", s)
    out = []
    i = 0
    while i < len(s):
        m = TOK.match(s, i)
        if not m:
            raise SpecError("bad token at %r" % s[i:i + 20])
        i = m.end()
        k = m.lastgroup
        if k == "ws":
            continue
        v = m.group()
        if k == "id" and v == "_":
            out.append(("op", "_"))
        else:
            out.append((k, v))
    out.append(("eof", ""))
    return out


class Parser:
    def __init__(self, text):
        self.toks = tokenize(text)
        self.i = 0
        self.text = text

    def peek(self):
        return self.toks[self.i]

    def nxt(self):
        t = self.toks[self.i]
        self.i += 1
        return t

    def accept(self, v):
        if self.peek()[1] == v and self.peek()[0] in ("op", "id", "star"):
            self.i += 1
            return True
        return False

    def expect(self, v):
        if not self.accept(v):
            raise SpecError("expected %r at token %d in %r" % (v, self.i, self.text))

    def parse(self):
        e = self.expr()
        if self.peek()[0] != "eof":
            raise SpecError("trailing tokens %r in %r" % (self.peek(), self.text))
        return e

    def expr(self):
        return self.ternary()

    def ternary(self):
        c = self.iff()
        if self.accept("?"):
            a = self.ternary()
            self.expect(":")
            b = self.ternary()
            return ("ite", c, a, b)
        return c

    def iff(self):
        a = self.implies()
        while self.accept("<==>"):
            b = self.implies()
            a = ("bin", "<==>", a, b)
        return a

    def implies(self):
        a = self.lor()
        if self.accept("==>"):
            b = self.implies()
            return ("bin", "==>", a, b)
        return a

    def lor(self):
        a = self.land()
        while self.accept("||"):
            a = ("bin", "||", a, self.land())
        return a

    def land(self):
        a = self.cmp()
        while self.accept("&&"):
            a = ("bin", "&&", a, self.cmp())
        return a

    def cmp(self):
        a = self.add()
        while self.peek()[1] in ("==", "!=", "<", "<=", ">", ">=") and self.peek()[0] == "op":
            op = self.nxt()[1]
            a = ("bin", op, a, self.add())
        return a

    def add(self):
        a = self.mul()
        while self.peek()[1] in ("+", "-") and self.peek()[0] == "op":
            op = self.nxt()[1]
            a = ("bin", op, a, self.mul())
        return a

    def mul(self):
        a = self.unary()
        while (self.peek()[1] in ("/", "%", "*") and self.peek()[0] == "op") or self.peek()[0] == "star":
            op = self.nxt()[1]
            a = ("bin", op, a, self.unary())
        return a

    def unary(self):
        if self.accept("!"):
            return ("un", "!", self.unary())
        if self.peek() == ("op", "-"):
            self.nxt()
            return ("un", "-", self.unary())
        if self.peek()[0] == "star" or self.peek() == ("op", "*"):
            self.nxt()
            return ("un", "*", self.unary())
        return self.postfix()

    def postfix(self):
        e = self.primary()
        while True:
            if self.accept("."):
                t = self.nxt()
                if t[0] == "op" and t[1] == "(":
                    # type assertion x.(T): parse qualified type name
                    name = self.qualname()
                    self.expect(")")
                    e = ("assert", e, name)
                    continue
                if t[0] not in ("id", "num"):
                    raise SpecError("selector expected in %r" % self.text)
                e = ("sel", e, t[1])
            elif self.accept("("):
                args = []
                if not self.accept(")"):
                    while True:
                        args.append(self.expr())
                        if self.accept(")"):
                            break
                        self.expect(",")
                e = ("call", e, args)
            elif self.accept("["):
                i = self.expr()
                self.expect("]")
                e = ("idx", e, i)
            elif self.peek() == ("op", "{") and e[0] in ("id", "sel"):
                self.nxt()
                fields = []
                if not self.accept("}"):
                    while True:
                        fname = self.nxt()[1]
                        self.expect(":")
                        fields.append((fname, self.expr()))
                        if self.accept("}"):
                            break
                        self.expect(",")
                e = ("lit", e, fields)
            else:
                return e

    def qualname(self):
        parts = []
        if self.peek()[0] == "star" or self.peek() == ("op", "*"):
            self.nxt()
            parts.append("*")
        t = self.nxt()
        s = t[1]
        while self.accept("."):
            s += "." + self.nxt()[1]
        return "".join(parts) + s

    def primary(self):
        t = self.nxt()
        if t[0] == "num":
            return ("num", int(t[1]))
        if t[0] == "str":
            return ("str", bytes(t[1][1:-1], "utf-8").decode("unicode_escape"))
        if t == ("op", "("):
            e = self.expr()
            self.expect(")")
            return e
        if t == ("op", "_"):
            return ("wild",)
        if t == ("op", "$"):
            n = self.nxt()
            return ("dollar", n[1])
        if t[0] == "id":
            v = t[1]
            if v in ("forall", "exists"):
                binds = []
                while True:
                    x = self.nxt()[1]
                    ty = self.qualname()
                    binds.append((x, ty))
                    if not self.accept(","):
                        break
                self.expect("::")
                body = self.expr()
                return (v, binds, body)
            if v == "old" and self.peek() == ("op", "("):
                self.nxt()
                e = self.expr()
                self.expect(")")
                return ("old", e)
            if v == "true":
                return ("bool", True)
            if v == "false":
                return ("bool", False)
            if v == "nil":
                return ("nil",)
            return ("id", v)
        raise SpecError("unexpected token %r in %r" % (t, self.text))


def parse_expr(text):
    return Parser(text).parse()


LABEL = re.compile(r"^\s*\[([A-Za-z0-9_\-./:]+)\]\s*")
TAGS = re.compile(r"\{\s*(C\d+(?:\s*,\s*C\d+)*)\s*\}")


class Clause:
    def __init__(self, kind, label, tags, text, file, line):
        self.kind, self.label, self.tags, self.text = kind, label, tags, text
        self.file, self.line = file, line
        self.ast = None
        self.extra = {}

    def __repr__(self):
        return "<%s[%s] %s>" % (self.kind, self.label, self.text[:60])


class Decl:
    def __init__(self, kind, name, tags, file, line, pkg):
        self.kind, self.name, self.tags = kind, name, tags
        self.file, self.line, self.pkg = file, line, pkg
        self.clauses = []
        self.flags = set()
        self.attrs = {}

    def get(self, kind):
        return [c for c in self.clauses if c.kind == kind]

    def __repr__(self):
        return "<Decl %s %s>" % (self.kind, self.name)


def _split_tags(text):
    tags = []
    m = TAGS.search(text)
    while m:
        tags += [t.strip() for t in m.group(1).split(",")]
        text = text[:m.start()] + text[m.end():]
        m = TAGS.search(text)
    return tags, text.strip()


def parse_contracts(lines):
    """lines: list of dicts {file,line,pkg,text}. Returns list of Decl."""
    decls = []
    cur = None
    curclause = None
    for ln in lines:
        raw = ln["text"]
        txt = raw.strip()
        if not txt or txt.startswith("--") or txt.startswith("#"):
            continue
        # strip trailing comment
        if " -- " in txt:
            txt = txt.split(" -- ")[0].rstrip()
        first = txt.split(None, 1)[0]
        if first == "boundary":
            # boundary <receiver or pkg prefix> Name1, Name2, ... {tags}: opaque functions (own contract: safety only)
            curclause = None
            tags, rest = _split_tags(txt)
            parts = rest.split(None, 2)
            prefix, names = parts[1], parts[2]
            for n in [x.strip() for x in names.split(",") if x.strip()]:
                d = Decl("func", prefix + "." + n, tags, ln["file"], ln["line"], ln["pkg"])
                decls.append(d)
            cur = None
            continue
        if first in ("func", "extern", "interface", "type", "lemma", "history", "frame", "table", "axiom", "define", "coverage", "lockorder"):
            curclause = None
            tags, rest = _split_tags(txt)
            parts = rest.split(None, 1)
            kind = parts[0]
            name = parts[1].strip() if len(parts) > 1 else ""
            if kind == "extern":
                # extern func NAME
                name = name.split(None, 1)[1].strip() if name.startswith("func") else name
            if kind in ("lemma", "axiom", "define", "coverage", "frame", "lockorder"):
                # lemma [label] : expr   (expression may continue on following lines)
                m = LABEL.match(name)
                label = m.group(1) if m else "l%d" % ln["line"]
                body = name[m.end():] if m else name
                body = body.lstrip(": ").strip()
                cur = Decl(kind, label, tags, ln["file"], ln["line"], ln["pkg"])
                cl = Clause(kind, label, tags, body, ln["file"], ln["line"])
                cur.clauses.append(cl)
                curclause = cl
                decls.append(cur)
                continue
            cur = Decl(kind, name, tags, ln["file"], ln["line"], ln["pkg"])
            decls.append(cur)
            continue
        if cur is None:
            raise SpecError("%s:%d: clause outside a declaration" % (ln["file"], ln["line"]))
        if first in KEYWORDS:
            tags, rest = _split_tags(txt)
            body = rest[len(first):].strip()
            if first in ("pure", "reads", "inline", "effectfree", "nopanic", "fresh", "opaque", "noreturn", "terminates") and cur.kind != "interface":
                cur.flags.add(first)
                if body:
                    cur.attrs[first] = body
                curclause = None
                continue
            m = LABEL.match(body)
            label = None
            if m:
                label = m.group(1)
                body = body[m.end():]
            cl = Clause(first, label, tags or list(cur.tags), body.strip(), ln["file"], ln["line"])
            cur.clauses.append(cl)
            curclause = cl
        else:
            if curclause is None:
                raise SpecError("%s:%d: continuation without clause: %s" % (ln["file"], ln["line"], txt))
            curclause.text += " " + txt
    return decls
