"""Symbolic state: path condition, heap, trace; value construction (fresh / zero / from UF), equality, ite."""
import z3
from .vals import *


class Unsupported(Exception):
    pass


class Ev:
    """one entry of the ghost trace: a call that leaves the function"""
    __slots__ = ("name", "args", "results", "pos", "kind", "snap", "held")

    def __init__(self, name, args, results, pos, kind="call", snap=None, held=None):
        self.name, self.args, self.results, self.pos, self.kind = name, args, results, pos, kind
        self.snap, self.held = snap, held

    def __repr__(self):
        return "%s%s" % (self.name, "" if self.kind == "call" else "<" + self.kind + ">")


_NCELL = [0]


class State:
    def __init__(self, eng):
        self.eng = eng
        self.ir = eng.ir
        self.pc = []
        self.heap = {}
        self.symcells = {}
        self.trace = []
        self.held = []
        self.writes = []
        self.wraps = {}
        self.ncell = _NCELL
        self.notes = []
        self.failures = []   # safety/pre failures detected on this path: (kind, label, detail, model)
        self.ghost = {}

    def clone(self):
        s = State.__new__(State)
        s.eng, s.ir = self.eng, self.ir
        s.pc = list(self.pc)
        s.heap = dict(self.heap)
        s.symcells = dict(self.symcells)
        s.trace = list(self.trace)
        s.held = list(self.held)
        s.writes = list(self.writes)
        s.wraps = dict(self.wraps)
        s.ncell = self.ncell
        s.notes = self.notes
        s.failures = list(self.failures)
        s.ghost = dict(self.ghost)
        return s

    def log(self, name, args, results, pos, kind="call"):
        """append a trace entry together with a snapshot of the heap at the time of the call"""
        ev = Ev(name, args, results, pos, kind, dict(self.heap), list(self.held))
        self.trace.append(ev)
        if kind in ("call", "read", "go"):
            k = ("ncalls", name)
            cur = self.ghost.get(k)
            self.ghost[k] = (cur + 1) if cur is not None else z3.IntVal(1)
        self.eng.after_call(self, ev)

    def assume(self, c):
        if isinstance(c, bool):
            if not c:
                self.pc.append(z3.BoolVal(False))
            return
        self.pc.append(c)

    # ------------------------------------------------------------------ solver
    def solver(self, timeout_ms=None):
        s = z3.Solver()
        s.set("timeout", timeout_ms or self.eng.timeout_ms)
        ctx_ref, sol = s.ctx.ref(), s.solver
        zassert = z3.Z3_solver_assert
        for c in self.pc:
            zassert(ctx_ref, sol, c.as_ast())
        for a in str_axioms():
            zassert(ctx_ref, sol, a.as_ast())
        for a in self.eng.global_axioms:
            zassert(ctx_ref, sol, a.as_ast())
        ist = self.eng.init_state
        if ist is not None and ist is not self:
            key = len(ist.pc)
            cached = self.eng.init_conj
            if cached is None or cached[0] != key:
                conj = z3.And(*ist.pc) if ist.pc else z3.BoolVal(True)
                self.eng.init_conj = cached = (key, conj)
            zassert(ctx_ref, sol, cached[1].as_ast())
        return s

    def feasible(self, extra=None):
        if extra is not None:
            e = z3.simplify(extra) if is_z3(extra) else z3.BoolVal(bool(extra))
            if z3.is_false(e):
                return False
        s = self.solver(2000)
        if extra is not None:
            s.add(extra)
        self.eng.stats["feas"] += 1
        return s.check() != z3.unsat

    def valid(self, goal):
        """returns (verdict, model_or_None, smt2, seconds) verdict in proved|failed|unknown"""
        return self.eng.check_valid(self, goal)

    # ------------------------------------------------------------------ values
    def new_cell(self, v):
        self.ncell[0] += 1
        cid = self.ncell[0]
        self.heap[cid] = v
        return cid

    def int_range(self, t, term):
        b = self.ir.basic(t)
        if b in INT_RANGES:
            lo, hi = INT_RANGES[b]
            self.assume(z3.And(term >= lo, term <= hi))

    def leaf_sort(self, t):
        b = self.ir.basic(t)
        if b is None:
            return None
        if b in INT_RANGES:
            return z3.IntSort()
        if b in ("bool", "untyped bool"):
            return z3.BoolSort()
        if b in ("string", "untyped string"):
            return Str
        if b in ("float64", "float32", "untyped float"):
            return z3.RealSort()
        if b in ("unsafe.Pointer", "Pointer"):
            return Ref
        if b == "untyped nil":
            return Ref
        raise Unsupported("basic type " + b)

    def fresh(self, t, hint="v"):
        return self.from_uf(t, fresh_name(hint), [])

    def from_uf(self, t, name, args, depth=0):
        """a value of type t whose leaves are applications name.<path>(args)"""
        ir = self.ir
        argsorts = [a.sort() for a in args]
        k = ir.kind(t)
        u = ir.under(t)
        if k == "basic":
            srt = self.leaf_sort(t)
            term = uf(name, argsorts, srt)(*args) if args else z3.Const(name, srt)
            if srt == z3.IntSort():
                self.int_range(t, term)
            return term
        if k == "struct":
            f = {}
            for fld in ir.fields(t):
                f[fld["name"]] = self.from_uf(fld["type"], name + "." + fld["name"], args, depth + 1)
            return StructV(t, f)
        if k == "pointer":
            nil = uf(name + "#nil", argsorts, z3.BoolSort())(*args) if args else z3.Const(name + "#nil", z3.BoolSort())
            ref = uf(name + "#ref", argsorts, Ref)(*args) if args else z3.Const(name + "#ref", Ref)
            self.assume(nil == (ref == NIL))
            sym = name if not args else "%s(%s)" % (name, ",".join(str(a) for a in args))
            return PtrV(t, sym, (), nil, ref, ir.types[u]["elem"])
        if k == "interface":
            ref = uf(name, argsorts, Ref)(*args) if args else z3.Const(name, Ref)
            return IfaceV(ref, None)
        if k == "slice":
            ln = uf(name + "#len", argsorts, z3.IntSort())(*args) if args else z3.Const(name + "#len", z3.IntSort())
            nil = uf(name + "#nil", argsorts, z3.BoolSort())(*args) if args else z3.Const(name + "#nil", z3.BoolSort())
            self.assume(ln >= 0)
            self.assume(z3.Implies(nil, ln == 0))
            return SliceV(t, ln, SeqSym(name + "#at", list(args), ir.types[u]["elem"]), nil)
        if k == "array":
            n = ir.types[u].get("len", 0)
            et = ir.types[u]["elem"]
            if n <= 64:
                return SliceV(t, z3.IntVal(n), SeqLit([self.from_uf(et, "%s[%d]" % (name, i), args, depth + 1) for i in range(n)]), False)
            return SliceV(t, z3.IntVal(n), SeqSym(name + "#at", list(args), et), False)
        if k == "map":
            nil = uf(name + "#nil", argsorts, z3.BoolSort())(*args) if args else z3.Const(name + "#nil", z3.BoolSort())
            ref = uf(name + "#ref", argsorts, Ref)(*args) if args else z3.Const(name + "#ref", Ref)
            sym = name if not args else "%s(%s)" % (name, ",".join(str(a) for a in args))
            return MapV(t, "m:" + sym, nil, ref)
        if k == "func":
            ref = uf(name, argsorts, Ref)(*args) if args else z3.Const(name, Ref)
            return FuncV(ref=ref, t=t)
        if k == "chan":
            ref = uf(name, argsorts, Ref)(*args) if args else z3.Const(name, Ref)
            nil = uf(name + "#nil", argsorts, z3.BoolSort())(*args) if args else z3.Const(name + "#nil", z3.BoolSort())
            return ChanV(t, ref, nil)
        if k == "tuple":
            return TupleV([self.from_uf(x, "%s#%d" % (name, i), args, depth + 1) for i, x in enumerate(ir.types[u].get("params") or [])])
        raise Unsupported("from_uf kind %s (%s)" % (k, t))

    def zero(self, t):
        ir = self.ir
        k = ir.kind(t)
        u = ir.under(t)
        if k == "basic":
            srt = self.leaf_sort(t)
            if srt == z3.IntSort():
                return z3.IntVal(0)
            if srt == z3.BoolSort():
                return z3.BoolVal(False)
            if srt == Str:
                return str_lit("")
            if srt == z3.RealSort():
                return z3.RealVal(0)
            return NIL
        if k == "struct":
            return StructV(t, {f["name"]: self.zero(f["type"]) for f in ir.fields(t)})
        if k == "pointer":
            return PtrV(t, None, (), True, NIL, ir.types[u]["elem"])
        if k == "interface":
            return IfaceV(NIL, None)
        if k == "slice":
            return SliceV(t, z3.IntVal(0), SeqLit([]), True)
        if k == "array":
            n = ir.types[u].get("len", 0)
            return SliceV(t, z3.IntVal(n), SeqLit([self.zero(ir.types[u]["elem"]) for _ in range(n)]), False)
        if k == "map":
            return MapV(t, None, True, NIL)
        if k == "func":
            return FuncV(ref=NIL, t=t)
        if k == "chan":
            return ChanV(t, NIL, True)
        if k == "tuple":
            return TupleV([self.zero(x) for x in ir.types[u].get("params") or []])
        raise Unsupported("zero kind %s (%s)" % (k, t))

    # ------------------------------------------------------------------ equality / ite
    def eq(self, a, b):
        """structural equality as a z3 Bool (or python bool)"""
        if isinstance(a, bool):
            a = z3.BoolVal(a)
        if isinstance(b, bool):
            b = z3.BoolVal(b)
        if isinstance(a, int):
            a = z3.IntVal(a)
        if isinstance(b, int):
            b = z3.IntVal(b)
        if is_z3(a) and is_z3(b):
            if a.sort() != b.sort():
                if a.sort() == z3.RealSort() or b.sort() == z3.RealSort():
                    return z3.ToReal(a) == b if a.sort() == z3.IntSort() else a == z3.ToReal(b)
                raise Unsupported("eq sorts %s %s" % (a.sort(), b.sort()))
            return a == b
        if isinstance(a, StructV) and isinstance(b, StructV):
            cs = [self.eq(a.f[k], b.f[k]) for k in a.f]
            return z3.And(*[to_bool(c) for c in cs]) if cs else z3.BoolVal(True)
        if isinstance(a, IfaceV) and isinstance(b, IfaceV):
            if a.dyn is not None and b.dyn is not None:
                if a.dyn[0] != b.dyn[0]:
                    return z3.BoolVal(False)
                try:
                    return self.eq(a.dyn[1], b.dyn[1])
                except Unsupported:
                    pass
            return a.ref == b.ref
        if isinstance(a, PtrV) and isinstance(b, PtrV):
            if a.cell is not None and a.cell == b.cell and a.path == b.path:
                return z3.BoolVal(True)
            if isinstance(a.cell, int) and isinstance(b.cell, int):
                return z3.BoolVal(False)
            if a.cell is None and b.cell is None:
                return z3.BoolVal(True)
            if a.cell is None:
                return to_bool(b.nil)
            if b.cell is None:
                return to_bool(a.nil)
            if isinstance(a.cell, int):
                return z3.BoolVal(False) if True else None
            if isinstance(b.cell, int):
                return z3.BoolVal(False)
            return a.ref == b.ref
        if isinstance(a, SliceV) and isinstance(b, SliceV):
            # only comparison with nil is legal in Go
            if b.nil is True:
                return to_bool(a.nil)
            if a.nil is True:
                return to_bool(b.nil)
            raise Unsupported("slice equality")
        if isinstance(a, MapV) and isinstance(b, MapV):
            if b.nil is True:
                return to_bool(a.nil)
            if a.nil is True:
                return to_bool(b.nil)
            return a.ref == b.ref
        if isinstance(a, FuncV) and isinstance(b, FuncV):
            if (a.fn or a.bound) and (b.fn or b.bound) and a.ref is None and b.ref is None:
                return z3.BoolVal((a.fn, a.bound) == (b.fn, b.bound) and not a.bindings and not b.bindings)
            if b.ref is not None and z3.eq(b.ref, NIL):
                return z3.BoolVal(False) if a.ref is None else a.ref == NIL
            if a.ref is not None and z3.eq(a.ref, NIL):
                return z3.BoolVal(False) if b.ref is None else b.ref == NIL
            if a.ref is not None and b.ref is not None:
                return a.ref == b.ref
            raise Unsupported("func equality")
        if isinstance(a, ChanV) and isinstance(b, ChanV):
            if b.nil is True:
                return to_bool(a.nil)
            if a.nil is True:
                return to_bool(b.nil)
            try:
                ea, eb = self.ir.types[self.ir.under(a.t)].get("elem"), self.ir.types[self.ir.under(b.t)].get("elem")
                if ea and eb and ea != eb:
                    return z3.BoolVal(False)      # channels of different element types are different channels
            except Exception:
                pass
            return a.ref == b.ref
        if isinstance(a, TupleV) and isinstance(b, TupleV):
            return z3.And(*[to_bool(self.eq(x, y)) for x, y in zip(a.items, b.items)])
        raise Unsupported("eq %r %r" % (type(a), type(b)))

    def ite(self, c, a, b):
        c = to_bool(c)
        if z3.is_true(c):
            return a
        if z3.is_false(c):
            return b
        if a is b:
            return a
        if isinstance(a, (bool, int)) or isinstance(b, (bool, int)):
            a = z3.BoolVal(a) if isinstance(a, bool) else (z3.IntVal(a) if isinstance(a, int) else a)
            b = z3.BoolVal(b) if isinstance(b, bool) else (z3.IntVal(b) if isinstance(b, int) else b)
        if is_z3(a) and is_z3(b):
            if z3.eq(a, b):
                return a
            return z3.If(c, a, b)
        if isinstance(a, StructV) and isinstance(b, StructV):
            return StructV(a.t, {k: self.ite(c, a.f[k], b.f[k]) for k in a.f})
        if isinstance(a, IfaceV) and isinstance(b, IfaceV):
            dyn = None
            if a.dyn is not None and b.dyn is not None and a.dyn[0] == b.dyn[0]:
                try:
                    dyn = (a.dyn[0], self.ite(c, a.dyn[1], b.dyn[1]))
                except Unsupported:
                    dyn = None
            return IfaceV(z3.If(c, a.ref, b.ref), dyn)
        if isinstance(a, SliceV) and isinstance(b, SliceV):
            if a.seq is b.seq:
                return SliceV(a.t, z3.If(c, a.len, b.len), a.seq, z3.If(c, to_bool(a.nil), to_bool(b.nil)))
            if isinstance(a.seq, SeqLit) and isinstance(b.seq, SeqLit) and len(a.seq.items) == len(b.seq.items):
                return SliceV(a.t, z3.If(c, a.len, b.len), SeqLit([self.ite(c, x, y) for x, y in zip(a.seq.items, b.seq.items)]),
                              z3.If(c, to_bool(a.nil), to_bool(b.nil)))
            return SliceV(a.t, z3.If(c, a.len, b.len), SeqIte(c, a.seq, b.seq), z3.If(c, to_bool(a.nil), to_bool(b.nil)))
        if isinstance(a, PtrV) and isinstance(b, PtrV):
            if a.cell == b.cell and a.path == b.path:
                if a.nil is b.nil:
                    return a
                return PtrV(a.t, a.cell, a.path, z3.If(c, to_bool(a.nil), to_bool(b.nil)), z3.If(c, a.ref, b.ref), a.roott)
            if b.cell is None:
                return PtrV(a.t, a.cell, a.path, z3.Or(z3.Not(c), to_bool(a.nil)), z3.If(c, a.ref, NIL), a.roott)
            if a.cell is None:
                return PtrV(b.t, b.cell, b.path, z3.Or(c, to_bool(b.nil)), z3.If(c, NIL, b.ref), b.roott)
            # genuinely different targets: a conditional pointer
            return PtrV(a.t, ("ite", c, a, b), (), z3.If(c, to_bool(a.nil), to_bool(b.nil)), z3.If(c, a.ref, b.ref), a.roott)
        if isinstance(a, MapV) and isinstance(b, MapV):
            if a.cell == b.cell:
                return MapV(a.t, a.cell, z3.If(c, to_bool(a.nil), to_bool(b.nil)), z3.If(c, a.ref, b.ref))
            if b.cell is None:
                return MapV(a.t, a.cell, z3.Or(z3.Not(c), to_bool(a.nil)), z3.If(c, a.ref, NIL))
            if a.cell is None:
                return MapV(b.t, b.cell, z3.Or(c, to_bool(b.nil)), z3.If(c, NIL, b.ref))
            raise Unsupported("ite of different maps")
        if isinstance(a, ChanV) and isinstance(b, ChanV):
            if z3.eq(a.ref, b.ref):
                return a
            return ChanV(a.t, z3.If(c, a.ref, b.ref), z3.If(c, to_bool(a.nil), to_bool(b.nil)))
        if isinstance(a, FuncV) and isinstance(b, FuncV):
            def fref(f):
                if f.ref is not None:
                    return f.ref
                r = z3.Const("fn!" + str(f.fn or f.bound) + ("!" + str(id(f.bindings)) if f.bindings else ""), Ref)
                self.assume(r != NIL)
                return r
            if (a.fn, a.bound) == (b.fn, b.bound) and a.bindings == b.bindings and (a.fn or a.bound):
                return FuncV(a.fn, a.bindings, z3.If(c, fref(a), fref(b)), a.bound, a.t)
            if b.ref is not None and z3.eq(b.ref, NIL):
                return FuncV(a.fn, a.bindings, z3.If(c, fref(a), NIL), a.bound, a.t)
            if a.ref is not None and z3.eq(a.ref, NIL):
                return FuncV(b.fn, b.bindings, z3.If(c, NIL, fref(b)), b.bound, b.t)
            if a.fn is None and a.bound is None and b.fn is None and b.bound is None:
                return FuncV(ref=z3.If(c, a.ref, b.ref), t=a.t)
            raise Unsupported("ite of different functions")
        if isinstance(a, TupleV) and isinstance(b, TupleV):
            return TupleV([self.ite(c, x, y) for x, y in zip(a.items, b.items)])
        raise Unsupported("ite %r %r" % (type(a), type(b)))

    # ------------------------------------------------------------------ heap
    def _materialize(self, p):
        """cell id holding the root object of a symbolic pointer"""
        if isinstance(p.cell, int) or (isinstance(p.cell, tuple)):
            if p.cell not in self.heap and isinstance(p.cell, tuple) and p.cell[0] == "g":
                self.heap[p.cell] = self.eng.global_value(self, p.cell[1])
            return p.cell
        if p.cell is None:
            raise Unsupported("deref of nil pointer constant")
        cid = self.symcells.get(p.cell)
        if cid is None:
            v = self.from_uf(p.roott, p.cell + ".*", [])
            self.ncell[0] += 1
            cid = ("s", p.cell)
            self.heap[cid] = v
            self.symcells[p.cell] = cid
            self.eng.apply_type_invariant(self, p.roott, v, PtrV(p.t, p.cell, (), False, p.ref, p.roott))
        return cid

    def load(self, p):
        if isinstance(p.cell, tuple) and p.cell and p.cell[0] == "ite":
            _, c, a, b = p.cell
            return self.ite(c, self.load(self._ext(a, p.path)), self.load(self._ext(b, p.path)))
        cid = self._materialize(p)
        v = self.heap[cid]
        for step in p.path:
            v = self._step(v, step)
        return v

    def _step(self, v, step):
        if isinstance(v, StructV):
            return v.f[step]
        if isinstance(v, SliceV):
            return self.seq_read(v.seq, to_int(step), v.t)
        raise Unsupported("path step %r into %r" % (step, type(v)))

    def _ext(self, p, path):
        return p if not path else PtrV(p.t, p.cell, tuple(p.path) + tuple(path), p.nil, p.ref, p.roott)

    def store(self, p, val):
        if isinstance(p.cell, tuple) and p.cell and p.cell[0] == "ite":
            _, c, a, b = p.cell
            pa, pb = self._ext(a, p.path), self._ext(b, p.path)
            if a.cell is not None:
                self.store(pa, self.ite(c, val, self.load(pa)))
            if b.cell is not None:
                self.store(pb, self.ite(c, self.load(pb), val))
            return
        cid = self._materialize(p)
        if not isinstance(cid, int):
            self.writes.append((cid, p.path))
        self.heap[cid] = self._upd(self.heap[cid], p.path, val)

    def _upd(self, v, path, val):
        if not path:
            return val
        step = path[0]
        if isinstance(v, StructV):
            return v.with_field(step, self._upd(v.f[step], path[1:], val))
        if isinstance(v, SliceV):
            old = self.seq_read(v.seq, to_int(step), v.t)
            new = self._upd(old, path[1:], val)
            if isinstance(v.seq, SeqLit) and isinstance(step, int):
                items = list(v.seq.items)
                items[step] = new
                return SliceV(v.t, v.len, SeqLit(items), v.nil)
            return SliceV(v.t, v.len, SeqUpd(v.seq, to_int(step), new), v.nil)
        raise Unsupported("store path into %r" % type(v))

    # ------------------------------------------------------------------ sequences
    def elem_type(self, slice_t):
        u = self.ir.under(slice_t)
        return self.ir.types[u]["elem"]

    def seq_read(self, seq, i, slice_t=None):
        i = to_int(i)
        et = None
        if slice_t is not None:
            try:
                et = self.elem_type(slice_t)
            except Exception:
                et = None
        if isinstance(seq, SeqLit):
            si = z3.simplify(i)
            if z3.is_int_value(si):
                n = si.as_long()
                if 0 <= n < len(seq.items):
                    return seq.items[n]
                if et is not None:
                    return self.from_uf(et, fresh_name("oob"), [])   # out of range: guarded by a bounds obligation / dead branch
                raise Unsupported("constant index out of literal range")
            if not seq.items:
                if et is not None:
                    return self.from_uf(et, fresh_name("oob"), [])
                raise Unsupported("read from empty literal")
            v = seq.items[-1]
            for k in range(len(seq.items) - 2, -1, -1):
                v = self.ite(i == k, seq.items[k], v)
            return v
        if isinstance(seq, SeqSym):
            return self.from_uf(seq.et, seq.name, list(seq.args) + [i])
        if isinstance(seq, SeqApp):
            v = None
            for k in range(len(seq.items) - 1, -1, -1):
                v = seq.items[k] if v is None else self.ite(i == seq.blen + k, seq.items[k], v)
            si = z3.simplify(i - seq.blen)
            if z3.is_int_value(si) and 0 <= si.as_long() < len(seq.items):
                return seq.items[si.as_long()]
            if isinstance(seq.base, SeqLit) and not seq.base.items:
                return v
            return self.ite(i < seq.blen, self.seq_read(seq.base, i, slice_t), v)
        if isinstance(seq, SeqCat):
            return self.ite(i < seq.blen, self.seq_read(seq.base, i, slice_t), self.seq_read(seq.other, i - seq.blen, slice_t))
        if isinstance(seq, SeqUpd):
            return self.ite(i == seq.idx, seq.val, self.seq_read(seq.base, i, slice_t))
        if isinstance(seq, SeqOff):
            return self.seq_read(seq.base, i + seq.off, slice_t)
        if isinstance(seq, SeqIte):
            return self.ite(seq.c, self.seq_read(seq.a, i, slice_t), self.seq_read(seq.b, i, slice_t))
        raise Unsupported("seq_read %r" % type(seq))

    # ------------------------------------------------------------------ maps
    def map_contents(self, m):
        if m.cell is None:
            raise Unsupported("nil map contents")
        c = self.heap.get(m.cell)
        if c is None:
            u = self.ir.under(m.t)
            ti = self.ir.types[u]
            base = z3.Const("mapbase!" + str(m.cell), z3.IntSort())
            c = MapC(base, (), ti["key"], ti["elem"])
            self.heap[m.cell] = c
        return c

    def map_lookup(self, m, key):
        """returns (present Bool, value)"""
        c = self.map_contents(m)
        kl = leaves(key)
        if c.base is None:
            present, val = z3.BoolVal(False), self.zero(c.vt)
        else:
            present = uf("mapdom:" + c.vt, [c.base.sort()] + [k.sort() for k in kl], z3.BoolSort())(c.base, *kl)
            val = self.from_uf(c.vt, "mapval:" + c.vt, [c.base] + kl)
        for (k, p, v) in c.ups:
            e = z3.simplify(to_bool(self.eq(key, k)))
            present = self.ite(e, to_bool(p), present)
            val = self.ite(e, v, val) if v is not None else val
        return present, val

    def map_update(self, m, key, present, val):
        c = self.map_contents(m)
        if not isinstance(m.cell, int):
            self.writes.append((m.cell, ()))
        self.heap[m.cell] = MapC(c.base, c.ups + ((key, present, val),), c.kt, c.vt)
