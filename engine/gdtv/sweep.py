"""zero-annotation sweep: run every non-generated in-repo function through the executor (safety obligations only)"""
import sys, time, traceback, collections, signal, os, multiprocessing as mp
from .ir import IR
from .verify import Engine
from .state import Unsupported
from .spec import SpecError, Decl

def _alarm(*a): raise TimeoutError()

ENG = None

def one(name):
    eng = ENG
    fn = eng.ir.funcs[name]
    d = eng.by_func.get(name)
    if d is None:
        d = Decl("func", fn["short"], ["SWEEP"], fn["file"], 0, fn["pkg"])
        d.attrs["full"] = name
    eng.obls = {}
    t0 = time.time()
    eng.deadline = time.time() + int(os.environ.get("SWEEP_T", "30"))
    try:
        info = eng.verify_function(d)
        pass
        r = ("ok", str(info))
    except TimeoutError:
        r = ("timeout", "")
    except (Unsupported, SpecError) as e:
        pass
        r = ("unsupported", str(e))
    except Exception as e:
        pass
        r = ("crash", traceback.format_exc()[-600:] if "-t" in sys.argv else traceback.format_exc().splitlines()[-1])
    eng.cur = None
    fails = [(o.verdict, o.name, ((o.failed or o.unknown)[0].get("pos") if (o.failed or o.unknown) else "")) for o in eng.obls.values() if o.verdict != "discharged"]
    return fn["short"], r, time.time() - t0, fails

def main():
    global ENG
    ir = IR(sys.argv[1])
    ENG = Engine(ir)
    from .fsm import FSM
    ENG.fsm = FSM(ENG)
    pat = sys.argv[2] if len(sys.argv) > 2 and not sys.argv[2].startswith("-") else ""
    names = [n for n, fn in sorted(ir.funcs.items()) if not fn.get("generated") and pat in fn["short"] and not fn["short"].endswith(".init")
             and not (ENG.by_func.get(n) is not None and "effectfree" in ENG.by_func[n].flags)]
    t00 = time.time()
    with mp.get_context("fork").Pool(16) as pool:
        out = pool.map(one, names, chunksize=1)
    res = collections.Counter()
    why = collections.Counter()
    allfails = []
    for short, (st, msg), dt, fails in out:
        res[st] += 1
        if st != "ok":
            print("%s %s: %s" % (st.upper(), short, msg[:300]))
            why[msg[:80]] += 1
        elif dt > 5 or "'cuts': 0" not in msg:
            print("SLOW/CUT %s %s %.1fs" % (short, msg, dt))
        allfails += fails
    print(res, "%.1fs" % (time.time() - t00))
    for k, v in why.most_common(30): print(v, k)
    print("non-discharged obligations:", len(allfails))
    for f in allfails: print("  ", *f)

main()
