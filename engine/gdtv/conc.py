"""Locks as lock invariants + rely/guarantee on the guarded fields; guarded_by ownership; no re-acquisition.

type T
  lock lk guards f1, f2
  guarantee [label] expr over self / old(self...)      (what every critical section may do to the guarded fields)
  invariant lk [label] expr                             (holds whenever the lock is free)

At Lock()/RLock(): the guarded fields are havocked (another goroutine may have held the lock), then the invariants
and the guarantees (relating the state at our previous observation to the new one) are assumed.
At Unlock(): invariants and guarantees (relating the state at Lock to the state at Unlock) are proved.
Reads of a guarded field need the lock in any mode, writes need it in write mode (ownership obligations).
Soundness of this local reasoning for all interleavings is the lock-invariant / rely-guarantee meta-theorem (trusted).
"""
import re
import z3
from .vals import *
from .state import State, Unsupported
from .spec import SpecError, parse_expr
from .speceval import SpecCtx


class Conc:
    def index_locks(self):
        self.atomic_fields = {}
        self.token_decls = {}     # struct type -> {token name -> (lock field, take ast, drop ast, decl)}
        self.lock_decls = {}      # struct type -> {lock field -> [guarded fields]}
        self.guard_of = {}        # (struct type, field) -> lock field
        for t, d in self.type_invs.items():
            for cl in d.clauses:
                if cl.kind == "lock":
                    m = re.match(r"^(\w+)\s+guards\s+(.*)$", cl.text.strip())
                    if not m:
                        self.errors.append("%s:%d: lock syntax: lock <field> guards f1, f2" % (cl.file, cl.line))
                        continue
                    fields = [x.strip() for x in m.group(2).split(",") if x.strip()]
                    self.lock_decls.setdefault(t, {})[m.group(1)] = fields
                    for f in fields:
                        self.guard_of[(t, f)] = m.group(1)
                elif cl.kind == "guarantee":
                    if cl.ast is None:
                        try:
                            cl.ast = parse_expr(cl.text)
                        except SpecError as e:
                            self.errors.append("%s:%d: %s" % (cl.file, cl.line, e))
                elif cl.kind == "atomic":
                    for f in [x.strip() for x in cl.text.split("--")[0].split(",") if x.strip()]:
                        self.atomic_fields[(t, f)] = cl
                elif cl.kind == "token":
                    # token <name> lock <lk> take <expr> drop <expr>   (thread-local ghost, see DESIGN 2.4 "Ghost tokens")
                    m = re.match(r"^(\w+)\s+lock\s+(\w+)\s+take\s+(.*?)\s+drop\s+(.*)$", cl.text.strip(), re.S)
                    if not m:
                        self.errors.append("%s:%d: token syntax: token <name> lock <lk> take <expr> drop <expr>" % (cl.file, cl.line))
                        continue
                    try:
                        self.token_decls.setdefault(t, {})[m.group(1)] = (m.group(2), parse_expr(m.group(3)), parse_expr(m.group(4)), d)
                    except SpecError as e:
                        self.errors.append("%s:%d: %s" % (cl.file, cl.line, e))

    def struct_type_at(self, p):
        """(struct type, object pointer) that contains the field addressed by p (a pointer to a field)"""
        if not p.path:
            return None, None
        t = p.roott
        for step in p.path[:-1]:
            nxt = None
            for f in self.ir.fields(t):
                if f["name"] == step:
                    nxt = f["type"]
            if nxt is None:
                return None, None
            t = nxt
        obj = PtrV(None, p.cell, tuple(p.path[:-1]), False, p.ref, p.roott)
        return t, obj

    def lock_key(self, st, p):
        cell = p.cell
        if isinstance(cell, tuple) and len(cell) == 2 and cell[0] == "s":
            cell = cell[1]
        return (cell, tuple(p.path))

    # ------------------------------------------------------------------
    def on_lock(self, fr, st, p, ins, mode):
        if self.cur is None:
            return
        key = self.lock_key(st, p)
        T, obj = self.struct_type_at(p)
        lname = p.path[-1] if p.path else None
        guarded = (self.lock_decls.get(T) or {}).get(lname)
        if not self.quiet:
            held_keys = [h[0] for h in st.held]
            o = self.obl("lock", "no-reacquire:%s" % lname, self.cur["safety_props"])
            o.instances += 1
            if key in held_keys:
                o.failed.append({"pos": ins.get("pos"), "reason": "lock %s is acquired while already held on this path (sync mutexes are not reentrant)" % lname})
            else:
                o.proved += 1
        snap = None
        if guarded:
            prev = st.ghost.get(("lastobs", key))
            before = prev if prev is not None else st.clone()
            # havoc the guarded fields
            for f in guarded:
                fp = PtrV(None, obj.cell, obj.path + (f,), False, obj.ref, obj.roott)
                cur = st.load(fp)
                nw = len(st.writes)
                if isinstance(cur, MapV):
                    if cur.cell is not None:
                        c0 = st.map_contents(cur)
                        st.heap[cur.cell] = MapC(z3.Const(fresh_name("mapbase!" + str(cur.cell)), z3.IntSort()), (), c0.kt, c0.vt)
                        st.ghost.setdefault("guarded_maps", {})[cur.cell] = (key, T, f)
                else:
                    st.store(fp, self.havoc_like(st, cur))
                del st.writes[nw:]
            d = self.type_invs.get(T)
            selfv = st.load(obj)
            for cl in d.clauses:
                try:
                    if cl.kind == "invariant" and cl.ast is not None and cl.extra.get("lock") == lname:
                        ctx = SpecCtx(self, st, st, {"self": obj}, fr_pkg=d.pkg)
                        ctx.pol = -1
                        ctx.token_obj = (obj, T)
                        st.assume(to_bool(ctx.eval(self.inv_ast(cl))))
                    elif cl.kind == "guarantee" and cl.ast is not None and cl.extra.get("lock") in (None, lname):
                        # rely: some other goroutine acted; if we hold a token, it did not
                        ctx = SpecCtx(self, st, before, {"self": obj}, fr_pkg=d.pkg)
                        ctx.pol = -1
                        ctx.token_view = "other"
                        ctx.token_obj = (obj, T)
                        st.assume(to_bool(ctx.eval(cl.ast)))
                except (SpecError, Unsupported) as e:
                    msg = "%s:%d: %s" % (cl.file, cl.line, e)
                    if msg not in self.errors:
                        self.errors.append(msg)
            snap = st.clone()
        st.held = st.held + [(key, mode, snap, T, lname)]

    def inv_ast(self, cl):
        return cl.ast

    def on_unlock(self, fr, st, p, ins, mode):
        if self.cur is None:
            return
        key = self.lock_key(st, p)
        idx = None
        for i in range(len(st.held) - 1, -1, -1):
            if st.held[i][0] == key:
                idx = i
                break
        lname = p.path[-1] if p.path else None
        if idx is None:
            if not self.quiet:
                o = self.obl("lock", "unlock-held:%s" % lname, self.cur["safety_props"])
                o.instances += 1
                o.failed.append({"pos": ins.get("pos"), "reason": "unlock of a lock that is not held on this path"})
            return
        (_, hmode, snap, T, _) = st.held[idx]
        d = self.type_invs.get(T)
        obj = None
        if snap is not None:
            _, obj = self.struct_type_at(p)
        if snap is not None and not self.quiet:
            selfv = st.load(obj)
            for cl in d.clauses:
                if cl.kind == "guarantee" and cl.ast is not None and cl.extra.get("lock") in (None, lname):
                    o = self.obl("guarantee", "%s:%s" % (lname, cl.label or "g"), cl.tags or None)
                    try:
                        ctx = SpecCtx(self, st, snap, {"self": obj}, fr_pkg=d.pkg)
                        ctx.token_view = "mine"
                        ctx.token_obj = (obj, T)
                        goal = to_bool(ctx.eval(cl.ast))
                    except (SpecError, Unsupported) as e:
                        o.instances += 1
                        o.unknown.append({"reason": "spec error: %s" % e})
                        continue
                    self.record(o, st, goal, ins.get("pos"))
        # ghost token updates attached to this lock (after the guarantees, which speak about the token held during the section)
        if snap is not None:
            for tname, (tlock, take, drop, tdecl) in (self.token_decls.get(T) or {}).items():
                if tlock != lname:
                    continue
                try:
                    selfv2 = st.load(obj)
                    ctx = SpecCtx(self, st, snap, {"self": obj}, fr_pkg=tdecl.pkg)
                    tk = to_bool(ctx.eval(take))
                    dr = to_bool(ctx.eval(drop))
                    key2 = ("token", self.lock_key(st, obj), tname)
                    cur = st.ghost.get(key2)
                    if cur is None:
                        cur = z3.Const("token!%s!%s" % (key2[1], tname), z3.BoolSort())
                    st.ghost[key2] = z3.simplify(z3.If(tk, z3.BoolVal(True), z3.If(dr, z3.BoolVal(False), cur)))
                except (SpecError, Unsupported) as e:
                    msg = "token %s: %s" % (tname, e)
                    if msg not in self.errors:
                        self.errors.append(msg)
        if snap is not None and not self.quiet:
            selfv = st.load(obj)
            for cl in d.clauses:
                if cl.kind == "invariant" and cl.ast is not None and cl.extra.get("lock") == lname:
                    o = self.obl("lock-inv", "%s:%s" % (lname, cl.label or "inv"), cl.tags or None)
                    try:
                        ctx = SpecCtx(self, st, st, {"self": obj}, fr_pkg=d.pkg)
                        ctx.token_obj = (obj, T)
                        goal = to_bool(ctx.eval(self.inv_ast(cl)))
                    except (SpecError, Unsupported) as e:
                        o.instances += 1
                        o.unknown.append({"reason": "spec error: %s" % e})
                        continue
                    self.record(o, st, goal, ins.get("pos"))
        # function-level guarantees: what this function's critical sections may do to the guarded fields
        if snap is not None and not self.quiet and fr is not None and fr.fn is self.cur.get("fn"):
            d = self.type_invs.get(T)
            _, obj = self.struct_type_at(p)
            selfv = st.load(obj)
            for cl in self.cur["decl"].get("guarantee"):
                o = self.obl("guarantee", "%s:%s" % (lname, cl.label or "g"), cl.tags or None)
                try:
                    names = dict(self.cur["names"])
                    names["self"] = obj
                    ctx = SpecCtx(self, st, snap, names, fr_pkg=fr.fn["pkg"])
                    ctx.name_types = dict(self.cur["name_types"])
                    goal = to_bool(ctx.eval(cl.ast))
                except (SpecError, Unsupported) as e:
                    o.instances += 1
                    o.unknown.append({"reason": "spec error: %s" % e})
                    continue
                self.record(o, st, goal, ins.get("pos"))
        st.ghost[("lastobs", key)] = st.clone() if snap is not None else None
        st.held = st.held[:idx] + st.held[idx + 1:]

    def token_value(self, ctx, obj_ptr, tname):
        """holds(x.tok): the thread-local ghost token of this activation"""
        st = ctx.entry if ctx.in_old else ctx.st
        key = ("token", self.lock_key(st, obj_ptr), tname)
        mine = st.ghost.get(key)
        if mine is None:
            mine = z3.Const("token!%s!%s" % (key[1], tname), z3.BoolSort())   # unknown at function entry
        if getattr(ctx, "token_view", None) == "other":
            h = z3.Const(fresh_name("otherholds"), z3.BoolSort())
            ctx.st.assume(z3.Implies(mine, z3.Not(h)))   # tokens are unique
            return h
        return mine

    # ownership ---------------------------------------------------------
    def _check_guard(self, fr, st, p, ins, write):
        if self.cur is None or self.quiet or not isinstance(p, PtrV) or not p.path:
            return
        if fr is not None and fr.fn["short"].endswith(".init"):
            return
        T, obj = self.struct_type_at(p)
        if T is None:
            return
        if (T, p.path[-1]) in self.atomic_fields and not isinstance(obj.cell, int):
            o = self.obl("ownership", "atomic:%s.%s" % (short_t(T).rsplit(".", 1)[-1], p.path[-1]), self.cur["safety_props"])
            o.instances += 1
            o.failed.append({"pos": ins.get("pos"), "reason": "plain %s of field %s, which is declared atomic (only sync/atomic operations may touch it)" % ("write" if write else "read", p.path[-1])})
            return
        lname = self.guard_of.get((T, p.path[-1]))
        if lname is None:
            return
        if isinstance(obj.cell, int):
            return      # object allocated by this activation (constructor): not yet shared
        key = self.lock_key(st, PtrV(None, obj.cell, obj.path + (lname,), False, obj.ref, obj.roott))
        modes = [h[1] for h in st.held if h[0] == key]
        ok = ("w" in modes) if write else bool(modes)
        o = self.obl("ownership", "%s.%s" % (short_t(T).rsplit(".", 1)[-1], p.path[-1]), self.cur["safety_props"])
        o.instances += 1
        if ok:
            o.proved += 1
        else:
            o.failed.append({"pos": ins.get("pos"), "reason": "%s of field %s without holding %s%s" % (
                "write" if write else "read", p.path[-1], lname, " in write mode" if write and modes else "")})

    def on_load(self, fr, st, p, ins):
        self._check_guard(fr, st, p, ins, False)
        if isinstance(p, PtrV) and p.path:
            T, obj = self.struct_type_at(p)
            lname = self.guard_of.get((T, p.path[-1])) if T else None
            if lname is not None and not isinstance(obj.cell, int):
                try:
                    v = st.load(p)
                    if isinstance(v, MapV) and v.cell is not None:
                        key = self.lock_key(st, PtrV(None, obj.cell, obj.path + (lname,), False, obj.ref, obj.roott))
                        st.ghost.setdefault("guarded_maps", {})[v.cell] = (key, T, p.path[-1])
                except Unsupported:
                    pass

    def on_store(self, fr, st, p, v, ins):
        self._check_guard(fr, st, p, ins, True)

    def on_map_access(self, fr, st, m, ins, write):
        if self.cur is None or self.quiet or m.cell is None:
            return
        g = st.ghost.get("guarded_maps", {}).get(m.cell)
        if g is None:
            return
        key, T, f = g
        modes = [h[1] for h in st.held if h[0] == key]
        ok = ("w" in modes) if write else bool(modes)
        o = self.obl("ownership", "%s.%s[]" % (short_t(T).rsplit(".", 1)[-1], f), self.cur["safety_props"])
        o.instances += 1
        if ok:
            o.proved += 1
        else:
            o.failed.append({"pos": ins.get("pos"), "reason": "%s of map %s without holding its lock%s" % (
                "update" if write else "lookup", f, " in write mode" if write and modes else "")})


def short_t(t):
    from .ir import short
    return short(t)
