"""Locks as lock invariants + rely/guarantee on the guarded fields; guarded_by ownership; no re-acquisition.

type T
  lock lk guards f1, f2
  guarantee [label] expr over self / old(self...)      (what every critical section may do to the guarded fields)
  invariant lk [label] expr                             (holds whenever the lock is free)

At Lock()/RLock(): the guarded fields are havocked (another goroutine may have held the lock), then the invariants
and the guarantees (relating the state at our previous observation to the new one) are assumed.
At Unlock(): invariants and guarantees (relating the state at Lock to the state at Unlock) are proved.
Reads of a guarded field need the lock in any mode, writes need it in write mode (ownership obligations).
Soundness of this local reasoning for all interleavings is the lock-invariant / rely-guarantee meta-theorem (trusted).
"""
import re
import z3
from .vals import *
from .state import State, Unsupported
from .spec import SpecError, parse_expr
from .speceval import SpecCtx


class Conc:
    def index_locks(self):
        self.atomic_fields = {}
        self.token_decls = {}     # struct type -> {token name -> (lock field, take ast, drop ast, decl)}
        self.lock_decls = {}      # struct type -> {lock field -> [guarded fields]}
        self.guard_of = {}        # (struct type, field) -> lock field
        for t, d in self.type_invs.items():
            for cl in d.clauses:
                if cl.kind == "lock":
                    m = re.match(r"^(\w+)\s+guards\s+(.*)$", cl.text.strip())
                    if not m:
                        self.errors.append("%s:%d: lock syntax: lock <field> guards f1, f2" % (cl.file, cl.line))
                        continue
                    fields = [x.strip() for x in m.group(2).split(",") if x.strip()]
                    self.lock_decls.setdefault(t, {})[m.group(1)] = fields
                    for f in fields:
                        self.guard_of[(t, f)] = m.group(1)
                elif cl.kind == "guarantee":
                    if cl.ast is None:
                        try:
                            cl.ast = parse_expr(cl.text)
                        except SpecError as e:
                            self.errors.append("%s:%d: %s" % (cl.file, cl.line, e))
                elif cl.kind == "atomic":
                    for f in [x.strip() for x in cl.text.split("--")[0].split(",") if x.strip()]:
                        self.atomic_fields[(t, f)] = cl
                elif cl.kind == "token":
                    # token <name> lock <lk> take <expr> drop <expr>   (thread-local ghost, see DESIGN 2.4 "Ghost tokens")
                    m = re.match(r"^(\w+)\s+lock\s+(\w+)\s+take\s+(.*?)\s+drop\s+(.*)$", cl.text.strip(), re.S)
                    if not m:
                        self.errors.append("%s:%d: token syntax: token <name> lock <lk> take <expr> drop <expr>" % (cl.file, cl.line))
                        continue
                    try:
                        self.token_decls.setdefault(t, {})[m.group(1)] = (m.group(2), parse_expr(m.group(3)), parse_expr(m.group(4)), d)
                    except SpecError as e:
                        self.errors.append("%s:%d: %s" % (cl.file, cl.line, e))

    MODULE = "github.com/filecoin-project/go-data-transfer/v2"

    def lock_class(self, T, lname):
        """class of a mutex: <short struct type>.<field>; None for a mutex that is not a struct field"""
        if not T or not lname:
            return None
        return "%s.%s" % (short_t(T), lname)

    def resolve_lock_class(self, text, pkg):
        tn, f = text.strip().rsplit(".", 1)
        T = self.resolve_type_name(tn, pkg)
        if not any(x["name"] == f for x in self.ir.fields(T)):
            raise SpecError("type %s has no field %s" % (tn, f))
        return self.lock_class(T, f)

    def index_lockorder(self):
        """lockorder declarations (a strict partial order on lock classes) and the acquires / locked / invokes clauses"""
        self.lock_lt = set()
        self.lockorder_decls = []
        for d in self.decls:
            try:
                if d.kind == "lockorder":
                    self.lockorder_decls.append(d)
                    for chain in d.clauses[0].text.split(";"):
                        cs = [self.resolve_lock_class(x, d.pkg) for x in chain.split("<") if x.strip()]
                        for i in range(len(cs)):
                            for j in range(i + 1, len(cs)):
                                self.lock_lt.add((cs[i], cs[j]))
                elif d.kind in ("func", "extern"):
                    for cl in d.clauses:
                        if cl.kind == "acquires":
                            acq = d.attrs.setdefault("acq", set())
                            for x in cl.text.split("--")[0].split(","):
                                x = x.strip()
                                if x and x != "nothing":
                                    acq.add(self.resolve_lock_class(x, d.pkg))
                        elif cl.kind in ("locked", "rlocked"):
                            cl.ast = parse_expr(cl.text)
                        elif cl.kind == "refines":
                            d.attrs.setdefault("refines", []).extend(x.strip() for x in cl.text.split("--")[0].split(",") if x.strip())
                        elif cl.kind == "invokes":
                            d.attrs.setdefault("invokes", []).extend(x.strip() for x in cl.text.split(",") if x.strip())
            except SpecError as e:
                self.errors.append("%s:%d: %s" % (d.file, d.line, e))
        # transitive closure; the order must be strict
        changed = True
        while changed:
            changed = False
            for (a, b) in list(self.lock_lt):
                for (c, e) in list(self.lock_lt):
                    if b == c and (a, e) not in self.lock_lt:
                        self.lock_lt.add((a, e))
                        changed = True
        for (a, b) in self.lock_lt:
            if a == b or (b, a) in self.lock_lt:
                self.errors.append("lockorder: the declared order is not strict at %s / %s" % (a, b))
                break

    LOCK_FUNCS = ("(*sync.Mutex).Lock", "(*sync.RWMutex).Lock", "(*sync.RWMutex).RLock")

    TESTISH = ("/testutil", "/testharness", "/benchmarks", "/itest")

    def implementors(self, iface_t, mname):
        """functions of the module (outside its test helpers) that implement method mname of interface iface_t"""
        key = (iface_t, mname)
        cache = self.__dict__.setdefault("_impl_cache", {})
        if key in cache:
            return cache[key]
        res = []
        for t, ti in self.ir.types.items():
            impl = ti.get("implements") or []
            if not impl or any(x in t for x in self.TESTISH):
                continue
            if iface_t in impl:
                f = self.ir.method_func(t, mname)
            elif "*" + iface_t in impl:
                f = self.ir.method_func("*" + t, mname)
            else:
                continue
            if f and f in self.ir.funcs:
                res.append(f)
        cache[key] = res
        return res

    def lock_relevant_funcs(self):
        if getattr(self, "_lock_rel", None) is not None:
            return self._lock_rel
        self._lock_rel = self._lock_relevant_funcs()
        return self._lock_rel

    def _lock_relevant_funcs(self):
        """functions whose execution can reach a mutex acquisition or a callee with a declared lock effect
        (static calls, closures and invoked interface methods; over-approximation used only to select what C20 verifies)"""
        ir = self.ir
        edges, direct = {}, set()
        for name, fn in ir.funcs.items():
            outs = set()
            for b in fn["blocks"]:
                for i in b["instrs"]:
                    op = i["op"]
                    if op in ("Call", "Go", "Defer"):
                        aux = i.get("aux") or {}
                        c = aux.get("callee")
                        if aux.get("mode") == "dynamic" and i.get("args"):
                            tn = i["args"][0].get("t") or ""
                            if "func(" not in tn:
                                dd = self.contract_for("dyn." + tn.rsplit("/", 1)[-1].rsplit(".", 1)[-1])
                                if dd is not None and dd.attrs.get("acq"):
                                    direct.add(name)
                        if c in self.LOCK_FUNCS:
                            direct.add(name)
                        elif c:
                            outs.add(c)
                            d = self.contract_for(c)
                            if d is not None and d.attrs.get("acq"):
                                direct.add(name)
                            if aux.get("mode") == "invoke" and aux.get("iface", "").startswith(self.MODULE):
                                outs.update(self.implementors(aux["iface"], aux["method"]))
                    elif op == "MakeClosure":
                        outs.add(i["aux"]["fn"])
            edges[name] = outs
        rel = set(direct)
        changed = True
        while changed:
            changed = False
            for n, outs in edges.items():
                if n not in rel and outs & rel:
                    rel.add(n)
                    changed = True
        return rel

    def lock_props(self):
        """lock-effect obligations (order, declared effects, refinement) belong to C20 alone"""
        return {"C20"}

    def own_props(self):
        """ownership / re-acquisition obligations also count for the properties the function is tagged with"""
        return set(self.cur["safety_props"]) | {"C20"}

    def check_order(self, st, cls, ins, via=None, extra_held=()):
        """acquiring a lock of class cls (directly, or through the callee `via`) with the locks of st held"""
        if self.cur is None or self.quiet or cls is None:
            return
        o = self.obl("lock", "order:%s" % cls.rsplit("/", 1)[-1], self.lock_props())
        helds = [(self.lock_class(h[3], h[4]), h[4]) for h in st.held] + [(c, c) for c in extra_held]
        o.instances += 1
        bad = [H for (H, _) in helds if H is not None and (H, cls) not in self.lock_lt]
        if bad:
            o.failed.append({"pos": ins.get("pos") if ins else None, "callee": via, "held": bad[0], "acquired": cls,
                             "reason": "%s %s while %s is held: %s" % (
                                 ("calls %s, which acquires" % via) if via else "acquires", cls, bad[0],
                                 "a lock of the same class (self-deadlock when it is the same object, no order between two of them)" if bad[0] == cls
                                 else "not allowed by the declared lock order")})
        else:
            o.proved += 1

    def note_acquired(self, st, classes):
        cur = st.ghost.get("acquired") or frozenset()
        st.ghost["acquired"] = cur | frozenset(c for c in classes if c)

    def callee_lock_effects(self, fr, st, decl, name, args, ins):
        """call of a callee under contract: its declared acquires against the locks held here; its locked-preconditions"""
        if self.cur is None or self.quiet:
            return
        acq = decl.attrs.get("acq") or ()
        for c in sorted(acq):
            self.check_order(st, c, ins, via=short_t(name))
        self.note_acquired(st, acq)
        # function values handed to a callee that invokes them during the call (`invokes f`)
        inv = decl.attrs.get("invokes") or []
        if inv:
            fn = self.ir.funcs.get(name)
            pn = [p["name"] for p in fn["params"]] if fn else (decl.attrs.get("params") or [])
            for pname in inv:
                if pname not in pn:
                    continue
                a = args[pn.index(pname)]
                if not isinstance(a, FuncV) or not a.fn:
                    if st.held or acq:
                        o = self.obl("lock", "invoked-closure-under-contract", self.lock_props())
                        o.instances += 1
                        o.failed.append({"pos": ins.get("pos"), "reason": "an unknown function value is handed to %s, which invokes it under locks" % short_t(name)})
                    continue
                cd = self.contract_for(a.fn)
                if cd is None:
                    o = self.obl("lock", "invoked-closure-under-contract", self.lock_props())
                    o.instances += 1
                    o.failed.append({"pos": ins.get("pos"), "reason": "%s is invoked by %s but has no contract" % (short_t(a.fn), short_t(name))})
                    continue
                cacq = cd.attrs.get("acq") or ()
                for c in sorted(cacq):
                    self.check_order(st, c, ins, via=short_t(a.fn), extra_held=sorted(acq))
                self.note_acquired(st, cacq)
                self.check_locked_pre(fr, st, cd, a.fn, list(a.bindings), ins)

    def locked_clause_keys(self, st, decl, fname, args):
        """(lock key, mode, clause) for the locked / rlocked clauses of decl, evaluated with the given arguments"""
        fn = self.ir.funcs.get(fname)
        names = {}
        if fn is not None:
            fvn = [p["name"] for p in (fn.get("freevars") or [])]
            pn = [p["name"] for p in fn["params"]]
            ps = fvn + pn if len(args) == len(fvn) + len(pn) else (fvn if fvn and len(args) == len(fvn) else pn)
            for n, a in zip(ps, args):
                names[n] = a
        res = []
        for cl in decl.clauses:
            if cl.kind not in ("locked", "rlocked"):
                continue
            ctx = SpecCtx(self, st, st, names, fr_pkg=(fn["pkg"] if fn else decl.pkg))
            p = ctx.eval_addr(cl.ast)
            res.append((self.lock_key(st, p), "w" if cl.kind == "locked" else "r", cl, p))
        return res

    def check_locked_pre(self, fr, st, decl, fname, args, ins):
        for (key, mode, cl, p) in self.locked_clause_keys(st, decl, fname, args):
            o = self.obl("pre", "%s.%s" % (short_t(fname).rsplit(".", 1)[-1], cl.kind), self.lock_props())
            o.instances += 1
            modes = [h[1] for h in st.held if h[0] == key]
            if ("w" in modes) if mode == "w" else bool(modes):
                o.proved += 1
            else:
                o.failed.append({"pos": ins.get("pos"), "reason": "%s requires %s %s, which is not held at this call" % (short_t(fname), cl.kind, cl.text)})

    def enter_locked(self, fr, st, decl, fname, args):
        """verification of a function that is only ever called with some locks held (locked / rlocked clauses)"""
        for (key, mode, cl, p) in self.locked_clause_keys(st, decl, fname, args):
            q, self.quiet = self.quiet, True
            try:
                self.on_lock(fr, st, p, {"pos": None}, mode, entry=True)
            finally:
                self.quiet = q

    # ------------------------------------------------------------------ promised channels / prompt waits (C09: closing never hangs)
    def chan_key(self, ch):
        return str(ch.ref)

    def promise(self, st, ch):
        """a value is available on ch, or will be delivered without further input"""
        if isinstance(ch, ChanV):
            st.ghost["promised"] = (st.ghost.get("promised") or frozenset()) | {self.chan_key(ch)}

    def is_promised(self, st, ch):
        if not isinstance(ch, ChanV):
            return False
        nil = ch.nil
        if nil is True or (not isinstance(nil, bool) and not z3.is_false(z3.simplify(to_bool(nil))) and st.feasible(to_bool(nil))):
            return False
        return self.chan_key(ch) in (st.ghost.get("promised") or frozenset())

    def send_is_nonblocking(self, st, ch):
        """a send on a buffered channel this activation made, with fewer sends so far than its capacity"""
        cap = st.ghost.get(("chancap", self.chan_key(ch)))
        if cap is None:
            return False
        sends = sum(1 for e in st.trace if e.kind == "chan" and e.name in ("send", "select-send") and e.args and isinstance(e.args[0], ChanV)
                    and self.chan_key(e.args[0]) == self.chan_key(ch))
        return sends < cap

    def promises_of(self, st, decl, fname, args, extra_names=None):
        """channels named by the `promises` clauses of decl, evaluated with the given arguments (free variables first)"""
        fn = self.ir.funcs.get(fname)
        names = dict(extra_names or {})
        if fn is not None:
            fvn = [p["name"] for p in (fn.get("freevars") or [])]
            pn = [p["name"] for p in fn["params"]]
            ps = fvn + pn if len(args) == len(fvn) + len(pn) else (fvn if fvn and len(args) == len(fvn) else pn)
            for n, a in zip(ps, args):
                names.setdefault(n, a)
        res = []
        for cl in decl.clauses:
            if cl.kind != "promises":
                continue
            if cl.ast is None:
                cl.ast = parse_expr(cl.text)
            ctx = SpecCtx(self, st, st, names, fr_pkg=(fn["pkg"] if fn else decl.pkg))
            v = ctx.eval(cl.ast)
            if isinstance(v, ChanV):
                res.append((cl, v))
        return res

    def _closure_accesses(self, fname):
        """for a closure: which of its free variables (captured by reference) it stores to / loads from, by name"""
        cache = self.__dict__.setdefault("_closure_acc", {})
        if fname in cache:
            return cache[fname]
        fn = self.ir.funcs.get(fname)
        w, r = set(), set()
        if fn is not None:
            fvs = {v["name"] for v in (fn.get("freevars") or [])}
            for b in fn["blocks"]:
                for i in b["instrs"]:
                    a = i.get("args") or []
                    if i["op"] == "Store" and a and a[0].get("n") in fvs:
                        w.add(a[0]["n"])
                    if i["op"] == "UnOp" and (i.get("aux") or {}).get("op") == "*" and a and a[0].get("n") in fvs:
                        r.add(a[0]["n"])
        cache[fname] = (w, r)
        return cache[fname]

    def on_go(self, fr, st, ins, name, args):
        # a local captured by reference by the spawned closure is shared with that goroutine from here on: the spawner may not
        # touch it again if the goroutine writes it, nor write it if the goroutine reads it (nothing orders the two)
        if isinstance(name, str) and name in self.ir.funcs and self.cur is not None and not self.quiet:
            fn = self.ir.funcs[name]
            fvs = fn.get("freevars") or []
            w, r = self._closure_accesses(name)
            for fv, val in zip(fvs, args):
                if isinstance(val, PtrV) and isinstance(val.cell, int) and not val.path and (fv["name"] in w or fv["name"] in r):
                    st.ghost = dict(st.ghost)
                    shared = dict(st.ghost.get("go_shared") or {})
                    shared[val.cell] = (fv["name"], fv["name"] in w, short_t(name))
                    st.ghost["go_shared"] = shared
        d = self.contract_for(name) if isinstance(name, str) else None
        if d is not None:
            try:
                for (cl, ch) in self.promises_of(st, d, name, args):
                    if self.send_is_nonblocking(st, ch):
                        self.promise(st, ch)     # the goroutine's one send cannot block: this activation made the channel with room for it
            except (SpecError, Unsupported):
                pass

    def may_block_funcs(self):
        """functions that can reach a channel wait (receive, send, select without default) through static calls"""
        if getattr(self, "_may_block", None) is not None:
            return self._may_block
        ir = self.ir
        direct, edges = set(), {}
        for name, fn in ir.funcs.items():
            outs = set()
            for b in fn["blocks"]:
                for i in b["instrs"]:
                    op = i["op"]
                    aux = i.get("aux") or {}
                    if op == "Send" or (op == "Select" and aux.get("blocking")) or (op == "UnOp" and aux.get("op") == "<-"):
                        direct.add(name)
                    elif op in ("Call", "Defer") and aux.get("callee") and aux.get("mode") in ("static", "closure"):
                        outs.add(aux["callee"])
            edges[name] = outs
        rel = set(direct)
        changed = True
        while changed:
            changed = False
            for n, outs in edges.items():
                if n not in rel and outs & rel:
                    rel.add(n)
                    changed = True
        self._may_block = rel
        return rel

    def struct_type_at(self, p):
        """(struct type, object pointer) that contains the field addressed by p (a pointer to a field)"""
        if not p.path:
            return None, None
        t = p.roott
        for step in p.path[:-1]:
            nxt = None
            for f in self.ir.fields(t):
                if f["name"] == step:
                    nxt = f["type"]
            if nxt is None:
                return None, None
            t = nxt
        obj = PtrV(None, p.cell, tuple(p.path[:-1]), False, p.ref, p.roott)
        return t, obj

    def lock_key(self, st, p):
        cell = p.cell
        if isinstance(cell, tuple) and len(cell) == 2 and cell[0] == "s":
            cell = cell[1]
        return (cell, tuple(p.path))

    # ------------------------------------------------------------------
    def on_lock(self, fr, st, p, ins, mode, entry=False):
        if self.cur is None:
            return
        key = self.lock_key(st, p)
        T, obj = self.struct_type_at(p)
        lname = p.path[-1] if p.path else None
        guarded = (self.lock_decls.get(T) or {}).get(lname)
        if not self.quiet and not entry:
            cls = self.lock_class(T, lname)
            if not any(h[0] == key for h in st.held):
                self.check_order(st, cls, ins)
            self.note_acquired(st, [cls])
        if not self.quiet:
            held_keys = [h[0] for h in st.held]
            o = self.obl("lock", "no-reacquire:%s" % lname, self.own_props())
            o.instances += 1
            if key in held_keys:
                o.failed.append({"pos": ins.get("pos"), "reason": "lock %s is acquired while already held on this path (sync mutexes are not reentrant)" % lname})
            else:
                o.proved += 1
        snap = None
        est = [x.strip() for cl in self.cur["decl"].clauses if cl.kind == "establishes" for x in cl.text.split(",")] if self.cur.get("decl") is not None else []
        if guarded and lname in est and ("established", key) not in st.ghost:
            # object under construction (`establishes <lock>`): nobody has held the lock yet, its invariants are not assumed here
            # (they are proved at the Unlock like everywhere else)
            st.ghost[("established", key)] = True
            snap = st.clone()
        elif guarded:
            prev = st.ghost.get(("lastobs", key))
            before = prev if prev is not None else st.clone()
            # havoc the guarded fields
            for f in guarded:
                fp = PtrV(None, obj.cell, obj.path + (f,), False, obj.ref, obj.roott)
                cur = st.load(fp)
                nw = len(st.writes)
                if isinstance(cur, MapV):
                    if cur.cell is not None:
                        c0 = st.map_contents(cur)
                        st.heap[cur.cell] = MapC(z3.Const(fresh_name("mapbase!" + str(cur.cell)), z3.IntSort()), (), c0.kt, c0.vt)
                        st.ghost.setdefault("guarded_maps", {})[cur.cell] = (key, T, f)
                else:
                    st.store(fp, self.havoc_like(st, cur))
                del st.writes[nw:]
            d = self.type_invs.get(T)
            selfv = st.load(obj)
            for cl in d.clauses:
                try:
                    if cl.kind == "invariant" and cl.ast is not None and cl.extra.get("lock") == lname:
                        ctx = SpecCtx(self, st, st, {"self": obj}, fr_pkg=d.pkg)
                        ctx.pol = -1
                        ctx.token_obj = (obj, T)
                        st.assume(to_bool(ctx.eval(self.inv_ast(cl))))
                    elif cl.kind == "guarantee" and cl.ast is not None and cl.extra.get("lock") in (None, lname):
                        # rely: some other goroutine acted; if we hold a token, it did not
                        ctx = SpecCtx(self, st, before, {"self": obj}, fr_pkg=d.pkg)
                        ctx.pol = -1
                        ctx.token_view = "other"
                        ctx.token_obj = (obj, T)
                        st.assume(to_bool(ctx.eval(cl.ast)))
                except (SpecError, Unsupported) as e:
                    msg = "%s:%d: %s" % (cl.file, cl.line, e)
                    if msg not in self.errors:
                        self.errors.append(msg)
            snap = st.clone()
        st.held = st.held + [(key, mode, snap, T, lname) + (("entry",) if entry else ())]

    def inv_ast(self, cl):
        return cl.ast

    def on_unlock(self, fr, st, p, ins, mode):
        if self.cur is None:
            return
        key = self.lock_key(st, p)
        idx = None
        for i in range(len(st.held) - 1, -1, -1):
            if st.held[i][0] == key:
                idx = i
                break
        lname = p.path[-1] if p.path else None
        if idx is None:
            if not self.quiet:
                o = self.obl("lock", "unlock-held:%s" % lname, self.own_props())
                o.instances += 1
                o.failed.append({"pos": ins.get("pos"), "reason": "unlock of a lock that is not held on this path"})
            return
        (_, hmode, snap, T, _) = st.held[idx][:5]
        d = self.type_invs.get(T)
        obj = None
        if snap is not None:
            _, obj = self.struct_type_at(p)
        if snap is not None and not self.quiet:
            selfv = st.load(obj)
            for cl in d.clauses:
                if cl.kind == "guarantee" and cl.ast is not None and cl.extra.get("lock") in (None, lname):
                    o = self.obl("guarantee", "%s:%s" % (lname, cl.label or "g"), cl.tags or None)
                    try:
                        ctx = SpecCtx(self, st, snap, {"self": obj}, fr_pkg=d.pkg)
                        ctx.token_view = "mine"
                        ctx.token_obj = (obj, T)
                        goal = to_bool(ctx.eval(cl.ast))
                    except (SpecError, Unsupported) as e:
                        o.instances += 1
                        o.unknown.append({"reason": "spec error: %s" % e})
                        continue
                    self.record(o, st, goal, ins.get("pos"))
        # function-level guarantees: what this function's critical sections may do to the guarded fields
        if snap is not None and not self.quiet and fr is not None and fr.fn is self.cur.get("fn"):
            d = self.type_invs.get(T)
            _, obj = self.struct_type_at(p)
            selfv = st.load(obj)
            for cl in self.cur["decl"].get("guarantee"):
                o = self.obl("guarantee", "%s:%s" % (lname, cl.label or "g"), cl.tags or None)
                try:
                    names = dict(self.cur["names"])
                    names["self"] = obj
                    ctx = SpecCtx(self, st, snap, names, fr_pkg=fr.fn["pkg"])
                    ctx.name_types = dict(self.cur["name_types"])
                    goal = to_bool(ctx.eval(cl.ast))
                except (SpecError, Unsupported) as e:
                    o.instances += 1
                    o.unknown.append({"reason": "spec error: %s" % e})
                    continue
                self.record(o, st, goal, ins.get("pos"))
        # ghost token updates attached to this lock (after the guarantees, which speak about the token held during the section)
        if snap is not None:
            for tname, (tlock, take, drop, tdecl) in (self.token_decls.get(T) or {}).items():
                if tlock != lname:
                    continue
                try:
                    selfv2 = st.load(obj)
                    ctx = SpecCtx(self, st, snap, {"self": obj}, fr_pkg=tdecl.pkg)
                    tk = to_bool(ctx.eval(take))
                    dr = to_bool(ctx.eval(drop))
                    key2 = ("token", self.lock_key(st, obj), tname)
                    cur = st.ghost.get(key2)
                    if cur is None:
                        cur = z3.Const("token!%s!%s" % (key2[1], tname), z3.BoolSort())
                    st.ghost[key2] = z3.simplify(z3.If(tk, z3.BoolVal(True), z3.If(dr, z3.BoolVal(False), cur)))
                except (SpecError, Unsupported) as e:
                    msg = "token %s: %s" % (tname, e)
                    if msg not in self.errors:
                        self.errors.append(msg)
        if snap is not None and not self.quiet:
            selfv = st.load(obj)
            for cl in d.clauses:
                if cl.kind == "invariant" and cl.ast is not None and cl.extra.get("lock") == lname:
                    o = self.obl("lock-inv", "%s:%s" % (lname, cl.label or "inv"), cl.tags or None)
                    try:
                        ctx = SpecCtx(self, st, st, {"self": obj}, fr_pkg=d.pkg)
                        ctx.token_obj = (obj, T)
                        goal = to_bool(ctx.eval(self.inv_ast(cl)))
                    except (SpecError, Unsupported) as e:
                        o.instances += 1
                        o.unknown.append({"reason": "spec error: %s" % e})
                        continue
                    self.record(o, st, goal, ins.get("pos"))
        st.ghost[("lastobs", key)] = st.clone() if snap is not None else None
        st.held = st.held[:idx] + st.held[idx + 1:]

    def token_value(self, ctx, obj_ptr, tname):
        """holds(x.tok): the thread-local ghost token of this activation"""
        st = ctx.entry if ctx.in_old else ctx.st
        key = ("token", self.lock_key(st, obj_ptr), tname)
        mine = st.ghost.get(key)
        if mine is None:
            mine = z3.Const("token!%s!%s" % (key[1], tname), z3.BoolSort())   # unknown at function entry
        if getattr(ctx, "token_view", None) == "other":
            h = z3.Const(fresh_name("otherholds"), z3.BoolSort())
            ctx.st.assume(z3.Implies(mine, z3.Not(h)))   # tokens are unique
            return h
        return mine

    # ownership ---------------------------------------------------------
    def _check_guard(self, fr, st, p, ins, write):
        if self.cur is None or self.quiet or not isinstance(p, PtrV) or not p.path:
            return
        if fr is not None and fr.fn["short"].endswith(".init"):
            return
        T, obj = self.struct_type_at(p)
        if T is None:
            return
        if (T, p.path[-1]) in self.atomic_fields and not isinstance(obj.cell, int):
            o = self.obl("ownership", "atomic:%s.%s" % (short_t(T).rsplit(".", 1)[-1], p.path[-1]), self.own_props())
            o.instances += 1
            o.failed.append({"pos": ins.get("pos"), "reason": "plain %s of field %s, which is declared atomic (only sync/atomic operations may touch it)" % ("write" if write else "read", p.path[-1])})
            return
        lname = self.guard_of.get((T, p.path[-1]))
        if lname is None:
            return
        if isinstance(obj.cell, int):
            return      # object allocated by this activation (constructor): not yet shared
        key = self.lock_key(st, PtrV(None, obj.cell, obj.path + (lname,), False, obj.ref, obj.roott))
        modes = [h[1] for h in st.held if h[0] == key]
        ok = ("w" in modes) if write else bool(modes)
        o = self.obl("ownership", "%s.%s" % (short_t(T).rsplit(".", 1)[-1], p.path[-1]), self.own_props())
        o.instances += 1
        if ok:
            o.proved += 1
        else:
            o.failed.append({"pos": ins.get("pos"), "reason": "%s of field %s without holding %s%s" % (
                "write" if write else "read", p.path[-1], lname, " in write mode" if write and modes else "")})

    def _check_go_shared(self, fr, st, p, ins, write):
        sh = st.ghost.get("go_shared")
        if not sh or self.cur is None or self.quiet or not isinstance(p, PtrV) or p.cell not in sh or fr.fn is not self.cur.get("fn"):
            return
        var, gwrites, gname = sh[p.cell]
        if not (gwrites or write):
            return
        o = self.obl("ownership", "goroutine-captured:%s" % var, self.own_props())
        o.instances += 1
        o.failed.append({"pos": ins.get("pos"), "reason": "%s of local %s after `go %s`, which captured it by reference and %s it: the two accesses are not ordered (data race)" % (
            "write" if write else "read", var, gname, "writes" if gwrites else "reads")})

    def on_load(self, fr, st, p, ins):
        self._check_go_shared(fr, st, p, ins, False)
        self._check_guard(fr, st, p, ins, False)
        if isinstance(p, PtrV) and p.path:
            T, obj = self.struct_type_at(p)
            lname = self.guard_of.get((T, p.path[-1])) if T else None
            if lname is not None and not isinstance(obj.cell, int):
                try:
                    v = st.load(p)
                    if isinstance(v, MapV) and v.cell is not None:
                        key = self.lock_key(st, PtrV(None, obj.cell, obj.path + (lname,), False, obj.ref, obj.roott))
                        st.ghost.setdefault("guarded_maps", {})[v.cell] = (key, T, p.path[-1])
                except Unsupported:
                    pass

    def on_store(self, fr, st, p, v, ins):
        self._check_go_shared(fr, st, p, ins, True)
        self._check_guard(fr, st, p, ins, True)

    def on_map_access(self, fr, st, m, ins, write):
        if self.cur is None or self.quiet or m.cell is None:
            return
        g = st.ghost.get("guarded_maps", {}).get(m.cell)
        if g is None:
            return
        key, T, f = g
        modes = [h[1] for h in st.held if h[0] == key]
        ok = ("w" in modes) if write else bool(modes)
        o = self.obl("ownership", "%s.%s[]" % (short_t(T).rsplit(".", 1)[-1], f), self.own_props())
        o.instances += 1
        if ok:
            o.proved += 1
        else:
            o.failed.append({"pos": ins.get("pos"), "reason": "%s of map %s without holding its lock%s" % (
                "update" if write else "lookup", f, " in write mode" if write and modes else "")})


def short_t(t):
    from .ir import short
    return short(t)
