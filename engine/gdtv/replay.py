"""Counterexample -> replay on the real code (go test -overlay), replay files."""
import os, json, re, subprocess, time

VERIF = os.environ.get("VERIF_ROOT", "/verif")
REPO = os.environ.get("VERIF_REPO", "/repo")


def describe(f):
    if f.get("undecided"):
        return "undecided by all solvers (%s)" % f.get("reason")
    bits = []
    for k in ("reason", "event", "status", "pos"):
        if f.get(k):
            bits.append("%s=%s" % (k, f[k]))
    m = f.get("model") or {}
    if m:
        items = [(k, v) for k, v in sorted(m.items()) if not k.startswith(("Ref!", "k!")) and "#ref" not in k][:14]
        bits.append("model{" + ", ".join("%s=%s" % kv for kv in items) + "}")
    return "; ".join(bits) or "no detail"


def safe(s):
    return re.sub(r"[^A-Za-z0-9_.\-]+", "_", s)[:150]


def write_replay(prop, o, f, eng, run_dir):
    """returns (path, confirmed_on_real_code)"""
    d = os.path.join(os.environ.get("VERIF_EVIDENCE_DIR") or VERIF, "replays", prop)
    os.makedirs(d, exist_ok=True)
    path = os.path.join(d, safe(o["name"]) + ".json")
    doc = {"property": prop, "obligation": o["name"], "kind": o["kind"],
           "verdict": "undecided" if f.get("undecided") else "sat", "solver": f.get("solver") or o.get("solver"),
           "model": f.get("model"), "reason": f.get("reason"), "event": f.get("event"), "status": f.get("status"),
           "pos": f.get("pos"), "trace_tail": f.get("trace"), "solver_input_smt2": f.get("smt2"),
           "confirmed_on_real_code": False, "replay": None}
    confirmed = False
    try:
        from . import replay_templates
        r = None if os.environ.get("VERIF_NO_REPLAY") else replay_templates.try_replay(prop, o, f, eng, run_dir)
        if r is not None:
            doc["replay"] = r
            confirmed = bool(r.get("fails_on_real_code"))
            doc["confirmed_on_real_code"] = confirmed
    except Exception as e:
        doc["replay"] = {"error": "replay machinery: %s" % e}
    if not confirmed:
        doc["note"] = "no-failing-input-found: the obligation failed; either no replay template applies or the replay did not fail"
    with open(path, "w") as fh:
        json.dump(doc, fh, indent=1)
    return path, confirmed


def rerun(prop, path):
    with open(path) as f:
        doc = json.load(f)
    print("obligation:", doc["obligation"])
    print("model:", json.dumps(doc.get("model"), indent=1))
    r = doc.get("replay")
    if r and r.get("cmd") and r.get("source"):
        from . import replay_templates
        out = replay_templates.run_overlay(r["package_dir"], r["test_file"], r["source"], r["test_name"])
        print(out["output"][-3000:])
        return 1 if out["failed"] else 0
    print("no executable replay recorded for this obligation")
    return 1
