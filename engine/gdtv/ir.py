"""IR: loads the gofront dump (go/ssa of /repo's working tree) and indexes it."""
import json, os, re, subprocess, sys, time

MOD = "github.com/filecoin-project/go-data-transfer/v2"


def short(s):
    s = s.replace(MOD + "/", "")
    s = s.replace(MOD + ".", "datatransfer.")
    s = s.replace(MOD + ")", "datatransfer)")
    return s


class IR:
    def __init__(self, path):
        with open(path) as f:
            d = json.load(f)
        self.raw = d
        self.types = d["types"]
        self.funcs = {f["name"]: f for f in d["funcs"]}
        self.by_short = {}
        for f in d["funcs"]:
            self.by_short.setdefault(f["short"], f)
        self.by_alias = {}
        import re as _re
        for f in d["funcs"]:
            a = _re.sub(r"[A-Za-z0-9_\-\.]+/", "", f["short"])
            self.by_alias.setdefault(a, []).append(f)
        self.globals = {g["name"]: g for g in d["globals"]}
        self.consts = {c["name"]: c for c in d["consts"]}
        self.contracts = d["contracts"] or []
        self.struct_decls = d.get("struct_decls") or {}
        self.packages = d["packages"]
        # pkg alias -> path
        self.alias = {}
        for p in self.packages:
            a = p.rsplit("/", 1)[-1]
            if p == MOD:
                a = "datatransfer"
            self.alias.setdefault(a, p)
        self.alias["message1_1"] = MOD + "/message/message1_1prime"
        self.dep_vars = d.get("dep_vars") or {}
        self.dep_alias = {}
        for path, name in (d.get("pkg_names") or {}).items():
            if path not in self.packages:
                self.dep_alias.setdefault(name, []).append(path)
        for f in self.funcs.values():
            f["params"] = f.get("params") or []
            f["results"] = f.get("results") or []
            for b in f["blocks"]:
                b["preds"] = b["preds"] or []
                b["succs"] = b["succs"] or []
                for ins in b["instrs"]:
                    ins.setdefault("args", [])
                    if ins.get("aux") is None:
                        ins["aux"] = {}
        self._loops = {}
        if "interface{}" not in self.types:
            self.types["interface{}"] = {"kind": "interface", "methods": []}
        if self.types.get("any", {}).get("kind") == "alias" and self.types["any"].get("underlying") == "any":
            self.types["any"] = {"kind": "interface", "methods": []}

    # ---- type helpers
    def ty(self, t):
        return self.types.get(t)

    def under(self, t):
        """resolve named/alias to the underlying type string"""
        seen = 0
        while True:
            ti = self.types.get(t)
            if ti is None:
                return t
            if ti["kind"] in ("named", "alias"):
                if ti["underlying"] == t:
                    return "interface{}" if "interface{}" in self.types else t
                t = ti["underlying"]
                seen += 1
                if seen > 20:
                    return t
                continue
            return t

    def kind(self, t):
        ti = self.types.get(self.under(t))
        return ti["kind"] if ti else "unknown"

    def basic(self, t):
        ti = self.types.get(self.under(t))
        if ti and ti["kind"] == "basic":
            return ti["basic"]
        return None

    def is_iface(self, t):
        return self.kind(t) == "interface"

    def fields(self, t):
        ti = self.types.get(self.under(t))
        return ti.get("fields") or [] if ti else []

    def method_func(self, recv_type, mname):
        """concrete method lookup: recv_type is T or *T (type strings)"""
        t = recv_type
        ptr = False
        if self.kind(t) == "pointer" and self.types.get(t, {}).get("kind") == "pointer":
            ptr = True
            t = self.types[t]["elem"]
        ti = self.types.get(t)
        if not ti or ti["kind"] != "named":
            return None
        for m in (ti.get("pmethods") or []) if ptr else (ti.get("methods") or []):
            if m["name"] == mname:
                return m.get("func")
        if ptr:
            for m in ti.get("methods") or []:
                if m["name"] == mname:
                    return m.get("func")
        return None

    def iface_method_sig(self, iface_t, mname):
        ti = self.types.get(self.under(iface_t))
        if not ti:
            return None
        for m in ti.get("methods") or []:
            if m["name"] == mname:
                return m["sig"]
        return None

    def find_func(self, name, pkg=None):
        """resolve a function by short or full name, or by bare name inside pkg"""
        if name in self.funcs:
            return self.funcs[name]
        if name in self.by_short:
            return self.by_short[name]
        cands = []
        for f in self.funcs.values():
            s = f["short"]
            if s == name or s.endswith("." + name) or s.endswith(")." + name):
                if pkg is None or f["pkg"] == pkg:
                    cands.append(f)
        if len(cands) == 1:
            return cands[0]
        if pkg is None and cands:
            return None
        return None

    # ---- loops (natural loops by dominators)
    def loops(self, f):
        key = f["name"]
        if key in self._loops:
            return self._loops[key]
        blocks = f["blocks"]
        idom = {b["index"]: b["idom"] for b in blocks}

        def dominates(a, b):
            while b != -1 and b is not None:
                if a == b:
                    return True
                b = idom.get(b, -1)
            return False

        heads = {}
        for b in blocks:
            for s in b["succs"]:
                if dominates(s, b["index"]):
                    # back edge b -> s
                    body = heads.setdefault(s, set([s]))
                    stack = [b["index"]]
                    while stack:
                        x = stack.pop()
                        if x in body:
                            continue
                        body.add(x)
                        stack.extend(blocks[x]["preds"])
        order = sorted(heads)
        res = {h: {"ordinal": i, "body": heads[h]} for i, h in enumerate(order)}
        self._loops[key] = res
        return res


def run_gofront(repo="/repo", out=None, verif_root="/verif"):
    """run the front-end on the current working tree of repo"""
    go124 = "/root/go/pkg/mod/golang.org/toolchain@v0.0.1-go1.24.0.linux-amd64/bin"
    env = dict(os.environ)
    env["PATH"] = go124 + ":" + env.get("PATH", "")
    env["GOTOOLCHAIN"] = "local"
    env["GOFLAGS"] = "-mod=mod"
    env["GOPROXY"] = "off"
    env.pop("GOSUMDB", None)
    t0 = time.time()
    p = subprocess.run([os.path.join(verif_root, "bin", "gofront"), "-dir", repo, "-o", out],
                       env=env, capture_output=True, text=True)
    if p.returncode != 0:
        sys.stderr.write(p.stderr)
        raise RuntimeError("gofront failed (the tree does not type-check with -tags verif?)")
    return time.time() - t0, p.stderr.strip()
