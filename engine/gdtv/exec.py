"""Path-based symbolic executor over the go/ssa dump."""
import sys, time
import z3
from .vals import *
from .state import State, Unsupported, Ev

sys.setrecursionlimit(20000)


class Outcome:
    __slots__ = ("kind", "st", "results", "info")

    def __init__(self, kind, st, results=None, info=None):
        self.kind, self.st, self.results, self.info = kind, st, results, info


class Frame:
    __slots__ = ("fn", "env", "blk", "prev", "ip", "defers", "visits", "depth", "top", "stack")

    def __init__(self, fn, env, depth, top, stack):
        self.fn, self.env, self.blk, self.prev, self.ip = fn, env, 0, -1, 0
        self.defers, self.visits, self.depth, self.top, self.stack = [], {}, depth, top, stack

    def clone(self):
        f = Frame(self.fn, dict(self.env), self.depth, self.top, self.stack)
        f.blk, f.prev, f.ip = self.blk, self.prev, self.ip
        f.defers = list(self.defers)
        f.visits = dict(self.visits)
        return f


UNSIGNED = {"uint": 64, "uint64": 64, "uint32": 32, "uint16": 16, "uint8": 8, "byte": 8, "uintptr": 64}
SIGNED = {"int": 64, "int64": 64, "int32": 32, "int16": 16, "int8": 8, "rune": 32}


class Executor:
    """mixin: instruction semantics. Host class provides ir, calls (do_call), safety hooks."""

    unroll_limit = 24
    inline_depth = 5
    global_types = {}
    deadline = None

    # ------------------------------------------------------------------ operands
    def operand(self, fr, st, o):
        k = o["k"]
        if k == "v":
            try:
                return fr.env[o["n"]]
            except KeyError:
                raise Unsupported("undefined SSA value %s in %s" % (o["n"], fr.fn["short"]))
        if k == "const":
            return self.const(st, o)
        if k == "global":
            t = o["t"]
            u = self.ir.under(t)
            self.global_types[o["n"]] = self.ir.types[u]["elem"]
            return PtrV(t, ("g", o["n"]), (), False, z3.Const("gaddr!" + o["n"], Ref), self.ir.types[u]["elem"])
        if k == "func":
            return FuncV(fn=o["n"], t=o.get("t"))
        if k == "builtin":
            return FuncV(fn="builtin:" + o["n"])
        if k == "none":
            return None
        raise Unsupported("operand kind " + k)

    def const(self, st, o):
        t = o["t"]
        n = o["n"]
        if n == "zero":
            return st.zero(t)
        if n == "bool":
            return z3.BoolVal(bool(o["v"]))
        if n == "int":
            srt = st.leaf_sort(t)
            if srt == z3.RealSort():
                return z3.RealVal(o["v"])
            return z3.IntVal(int(o["v"]))
        if n == "string":
            return str_lit(o["v"])
        if n == "float":
            return z3.RealVal(o["v"])
        raise Unsupported("const " + n)

    # ------------------------------------------------------------------ driver
    def run(self, fn, args, st, depth=0, freevars=None, top=False, stack=()):
        env = {}
        for p, a in zip(fn["params"], args):
            env[p["name"]] = a
        for p, a in zip(fn.get("freevars") or [], freevars or []):
            env[p["name"]] = a
        fr = Frame(fn, env, depth, top, stack + (fn["name"],))
        return self.exec_from(fr, st)

    def exec_from(self, fr, st):
        ir = self.ir
        fn = fr.fn
        blocks = fn["blocks"]
        while True:
            blk = blocks[fr.blk]
            instrs = blk["instrs"]
            if self.deadline and time.time() > self.deadline:
                raise Unsupported("time budget exceeded (path explosion) in " + fn["short"])
            if fr.ip == 0:
                loops = ir.loops(fn)
                skip_phis = False
                if fr.blk in loops:
                    r = self.at_loop_head(fr, st, loops[fr.blk])
                    if r is not None:
                        return r
                    skip_phis = fr.ip > 0      # the loop was cut: phis already hold havocked values
                # phis are evaluated simultaneously
                newv = {}
                n = 0
                if skip_phis:
                    instrs = []
                for ins in instrs:
                    if ins["op"] != "Phi":
                        break
                    idx = blk["preds"].index(fr.prev)
                    newv[ins["name"]] = self.operand(fr, st, ins["args"][idx])
                    n += 1
                fr.env.update(newv)
                if not skip_phis:
                    fr.ip = n
                instrs = blk["instrs"]
            while fr.ip < len(instrs):
                ins = instrs[fr.ip]
                fr.ip += 1
                op = ins["op"]
                if op == "If":
                    c = to_bool(self.operand(fr, st, ins["args"][0]))
                    outs = []
                    t_ok = st.feasible(c)
                    f_ok = st.feasible(z3.Not(c))
                    branches = []
                    if t_ok:
                        branches.append((c, blk["succs"][0]))
                    if f_ok:
                        branches.append((z3.Not(c), blk["succs"][1]))
                    if not branches:
                        return [Outcome("dead", st)]
                    if len(branches) == 1:
                        st.assume(branches[0][0])
                        fr.prev, fr.blk, fr.ip = fr.blk, branches[0][1], 0
                        break
                    for i, (cond, succ) in enumerate(branches):
                        s2 = st.clone() if i == 0 else st
                        f2 = fr.clone() if i == 0 else fr
                        s2.assume(cond)
                        f2.prev, f2.blk, f2.ip = fr.blk if i else f2.blk, succ, 0
                        outs.extend(self.exec_from(f2, s2))
                    return outs
                if op == "Jump":
                    fr.prev, fr.blk, fr.ip = fr.blk, blk["succs"][0], 0
                    break
                if op == "Return":
                    res = [self.operand(fr, st, a) for a in ins["args"]]
                    return [Outcome("ret", st, res, ins.get("pos"))]
                if op == "Panic":
                    return [Outcome("panic", st, None, ins.get("pos"))]
                if op in ("Call", "Go", "Defer"):
                    r = self.do_call_instr(fr, st, ins)
                    if r is not None:
                        return r
                    continue
                if op == "RunDefers":
                    r = self.run_defers(fr, st)
                    if r is not None:
                        return r
                    continue
                if op == "Select":
                    r = self.do_select(fr, st, ins)
                    if r is not None:
                        return r
                    continue
                self.step(fr, st, ins)
            else:
                raise Unsupported("fell off block %d in %s" % (fr.blk, fn["short"]))

    def at_loop_head(self, fr, st, loop):
        inv = self.loop_invariants(fr, loop)
        if inv:
            return self.cut_loop(fr, st, loop, inv)
        n = fr.visits.get(fr.blk, 0) + 1
        fr.visits[fr.blk] = n
        if n > self.unroll_limit:
            st.notes.append(("bounded-loop", fr.fn["short"], loop["ordinal"], self.unroll_limit))
            return [Outcome("cut", st, None, "loop %d unrolled %d times" % (loop["ordinal"], self.unroll_limit))]
        return None

    def loop_invariants(self, fr, loop):
        return None

    def continue_with(self, fr, st, outs_fn):
        """helper: fork the frame over several (state, assign) continuations"""
        outs = []
        items = list(outs_fn)
        for i, (s2, assign) in enumerate(items):
            f2 = fr.clone() if i < len(items) - 1 else fr
            if assign is not None:
                f2.env.update(assign)
            outs.extend(self.exec_from(f2, s2))
        return outs

    # ------------------------------------------------------------------ simple instructions
    def step(self, fr, st, ins):
        op = ins["op"]
        env = fr.env
        ir = self.ir
        A = ins["args"]
        aux = ins["aux"]
        if op == "Alloc":
            t = ins["type"]
            et = ir.types[ir.under(t)]["elem"]
            cid = st.new_cell(st.zero(et))
            env[ins["name"]] = PtrV(t, cid, (), False, z3.Const(fresh_name("addr"), Ref), et)
            return
        if op == "Store":
            p = self.operand(fr, st, A[0])
            v = self.operand(fr, st, A[1])
            self.check_nonnil(fr, st, p, ins, "store")
            self.on_store(fr, st, p, v, ins)
            st.store(p, v)
            return
        if op == "UnOp":
            x = self.operand(fr, st, A[0])
            o = aux["op"]
            if o == "*":
                self.check_nonnil(fr, st, x, ins, "load")
                self.on_load(fr, st, x, ins)
                env[ins["name"]] = st.load(x)
            elif o == "!":
                env[ins["name"]] = z3.Not(to_bool(x))
            elif o == "-":
                env[ins["name"]] = -x
            elif o == "<-":
                env[ins["name"]] = self.do_recv(fr, st, x, ins)
            elif o == "^":
                env[ins["name"]] = uf("bitnot", [z3.IntSort()], z3.IntSort())(x)
            else:
                raise Unsupported("unop " + o)
            return
        if op == "BinOp":
            x = self.operand(fr, st, A[0])
            y = self.operand(fr, st, A[1])
            env[ins["name"]] = self.binop(st, aux["op"], x, y, A[0].get("t") or ins["type"], ins)
            return
        if op == "FieldAddr":
            p = self.operand(fr, st, A[0])
            self.check_nonnil(fr, st, p, ins, "field " + aux["field"])
            env[ins["name"]] = PtrV(ins["type"], p.cell, p.path + (aux["field"],), False,
                                    uf("fieldaddr:" + aux["field"], [Ref], Ref)(p.ref), p.roott)
            return
        if op == "Field":
            x = self.operand(fr, st, A[0])
            env[ins["name"]] = x.f[aux["field"]]
            return
        if op == "IndexAddr":
            x = self.operand(fr, st, A[0])
            i = to_int(self.operand(fr, st, A[1]))
            if isinstance(x, PtrV):
                # pointer to array
                self.check_nonnil(fr, st, x, ins, "index")
                arr = st.load(x)
                self.check_index(fr, st, i, arr.len, ins)
                si = z3.simplify(i)
                step = si.as_long() if z3.is_int_value(si) else si
                env[ins["name"]] = PtrV(ins["type"], x.cell, x.path + (step,), False, z3.Const(fresh_name("eaddr"), Ref), x.roott)
            elif isinstance(x, SliceV):
                self.check_index(fr, st, i, x.len, ins)
                # element pointer into a slice value: modelled as a snapshot cell (no aliasing of backing arrays)
                cid = st.new_cell(x)
                si = z3.simplify(i)
                step = si.as_long() if z3.is_int_value(si) else si
                env[ins["name"]] = PtrV(ins["type"], cid, (step,), False, z3.Const(fresh_name("eaddr"), Ref), x.t)
                st.ghost.setdefault("slice_elem_ptrs", 0)
            else:
                raise Unsupported("IndexAddr on %r" % type(x))
            return
        if op == "Index":
            x = self.operand(fr, st, A[0])
            i = to_int(self.operand(fr, st, A[1]))
            if isinstance(x, SliceV):
                self.check_index(fr, st, i, x.len, ins)
                env[ins["name"]] = st.seq_read(x.seq, i, x.t)
                return
            raise Unsupported("Index on %r" % type(x))
        if op == "Extract":
            x = self.operand(fr, st, A[0])
            env[ins["name"]] = x.items[aux["index"]]
            return
        if op == "MakeInterface":
            x = self.operand(fr, st, A[0])
            env[ins["name"]] = self.make_iface(st, aux["from"], x)
            return
        if op == "ChangeInterface":
            env[ins["name"]] = self.operand(fr, st, A[0])
            return
        if op == "ChangeType":
            x = self.operand(fr, st, A[0])
            env[ins["name"]] = self.retag(x, ins["type"])
            return
        if op == "Convert":
            x = self.operand(fr, st, A[0])
            env[ins["name"]] = self.convert(st, x, A[0].get("t"), ins["type"])
            return
        if op == "TypeAssert":
            x = self.operand(fr, st, A[0])
            env[ins["name"]] = self.type_assert(fr, st, x, aux["asserted"], aux["commaok"], ins)
            return
        if op == "MakeClosure":
            binds = [self.operand(fr, st, a) for a in A]
            name = aux["fn"]
            if name.endswith("$bound"):
                env[ins["name"]] = FuncV(bound=name[:-len("$bound")], bindings=tuple(binds), t=ins["type"])
            else:
                env[ins["name"]] = FuncV(fn=name, bindings=tuple(binds), t=ins["type"])
            return
        if op == "MakeMap":
            cid = st.new_cell(None)
            u = ir.under(ins["type"])
            st.heap[cid] = MapC(None, (), ir.types[u]["key"], ir.types[u]["elem"])
            env[ins["name"]] = MapV(ins["type"], cid, False, z3.Const(fresh_name("map"), Ref))
            return
        if op == "MakeSlice":
            ln = to_int(self.operand(fr, st, A[0]))
            et = st.elem_type(ins["type"])
            sl = z3.simplify(ln)
            if z3.is_int_value(sl) and sl.as_long() <= 64:
                seq = SeqLit([st.zero(et) for _ in range(sl.as_long())])
            else:
                seq = SeqSym(fresh_name("mk") + "#at", [], et)
                st.notes.append(("abstract", "make([]T, n) with symbolic n: contents unconstrained"))
            env[ins["name"]] = SliceV(ins["type"], ln, seq, False)
            return
        if op == "MakeChan":
            ch = ChanV(ins["type"], z3.Const(fresh_name("chan"), Ref), False)
            env[ins["name"]] = ch
            if A and A[0].get("k") == "const":
                try:
                    st.ghost[("chancap", str(ch.ref))] = int(A[0].get("v"))
                except (TypeError, ValueError):
                    pass
            return
        if op == "Slice":
            env[ins["name"]] = self.do_slice(fr, st, ins)
            return
        if op == "Lookup":
            m = self.operand(fr, st, A[0])
            k = self.operand(fr, st, A[1])
            if isinstance(m, MapV):
                self.on_map_access(fr, st, m, ins, False)
                if m.cell is None:
                    present, val = z3.BoolVal(False), st.zero(ir.types[ir.under(m.t)]["elem"])
                else:
                    present, val = st.map_lookup(m, k)
                    if m.nil is not False and not z3.is_false(to_bool(m.nil)):
                        zero = st.zero(ir.types[ir.under(m.t)]["elem"])
                        present = z3.And(z3.Not(to_bool(m.nil)), present)
                        val = st.ite(to_bool(m.nil), zero, val)
                    else:
                        zero = st.zero(ir.types[ir.under(m.t)]["elem"])
                    val = st.ite(present, val, zero)
                env[ins["name"]] = TupleV([val, present]) if aux.get("commaok") else val
                return
            raise Unsupported("Lookup on %r" % type(m))
        if op == "MapUpdate":
            m = self.operand(fr, st, A[0])
            k = self.operand(fr, st, A[1])
            v = self.operand(fr, st, A[2])
            self.check_cond(fr, st, z3.Not(to_bool(m.nil)), "nil-map-write", ins)
            self.on_map_access(fr, st, m, ins, True)
            st.map_update(m, k, z3.BoolVal(True), v)
            return
        if op == "Range":
            x = self.operand(fr, st, A[0])
            env[ins["name"]] = OpaqueV("range", {"over": x, "id": fresh_name("range")})
            return
        if op == "Next":
            r = self.operand(fr, st, A[0])
            over = r.data["over"] if isinstance(r, OpaqueV) and isinstance(r.data, dict) else None
            vkey = ("visited", r.data["id"]) if over is not None else None
            if not isinstance(over, MapV) or vkey not in st.ghost:
                raise Unsupported("map range without invariant in " + fr.fn["short"])
            self.on_map_access(fr, st, over, ins, False)
            ufname, added = st.ghost[vkey]
            mt = ir.types[ir.under(over.t)]
            k = st.from_uf(mt["key"], fresh_name("rk"), [])
            ok = z3.Const(fresh_name("rangeok"), z3.BoolSort())
            present, val = st.map_lookup(over, k)
            st.assume(z3.Implies(ok, z3.And(to_bool(present), z3.Not(self.visited_pred(st, vkey, k)))))
            # exhaustion (Go spec): when the iteration ends every key still present has been produced
            q = st.from_uf(mt["key"], fresh_name("rq"), [])
            qs = leaves(q)
            n0 = len(st.pc)
            pq, _ = st.map_lookup(over, q)
            vq = self.visited_pred(st, vkey, q)
            facts = st.pc[n0:]
            del st.pc[n0:]
            body = z3.Implies(to_bool(pq), vq)
            st.assume(z3.Implies(z3.Not(ok), z3.ForAll(qs, z3.Implies(z3.And(*facts), body) if facts else body)))
            st.ghost[vkey] = (ufname, added + [k])
            st.ghost["last_visited"] = vkey
            env[ins["name"]] = TupleV([ok, k, val])
            return
        if op == "Send":
            self.do_send(fr, st, ins)
            return
        raise Unsupported("instruction %s in %s" % (op, fr.fn["short"]))

    def visited_pred(self, st, vkey, k):
        """membership of key k in the ghost set of keys produced so far by a map range"""
        ufname, added = st.ghost[vkey]
        kl = leaves(k)
        parts = []
        if ufname is not None:
            parts.append(uf(ufname, [x.sort() for x in kl], z3.BoolSort())(*kl))
        for a in added:
            parts.append(to_bool(st.eq(k, a)))
        return z3.Or(*parts) if parts else z3.BoolVal(False)

    # hooks (overridden by the verifier)
    def check_nonnil(self, fr, st, p, ins, what):
        pass

    def check_index(self, fr, st, i, ln, ins):
        pass

    def check_cond(self, fr, st, cond, kind, ins):
        pass

    def on_store(self, fr, st, p, v, ins):
        pass

    def on_load(self, fr, st, p, ins):
        pass

    def on_map_access(self, fr, st, m, ins, write):
        pass

    # ------------------------------------------------------------------ helpers
    def retag(self, x, t):
        if isinstance(x, StructV):
            return StructV(t, x.f)
        if isinstance(x, SliceV):
            return SliceV(t, x.len, x.seq, x.nil)
        if isinstance(x, MapV):
            return MapV(t, x.cell, x.nil, x.ref)
        if isinstance(x, PtrV):
            return PtrV(t, x.cell, x.path, x.nil, x.ref, x.roott)
        if isinstance(x, FuncV):
            return FuncV(x.fn, x.bindings, x.ref, x.bound, t)
        return x

    def make_iface(self, st, t, x):
        if isinstance(x, IfaceV):
            return x
        tid = type_id(t)
        if is_z3(x):
            f = uf("box:" + t, [x.sort()], Ref)
            g = uf("unbox:" + t, [Ref], x.sort())
            ref = f(x)
            st.assume(g(ref) == x)
        elif isinstance(x, PtrV):
            f = uf("box:" + t, [Ref], Ref)
            g = uf("unbox:" + t, [Ref], Ref)
            ref = f(x.ref)
            st.assume(g(ref) == x.ref)
        elif isinstance(x, StructV):
            try:
                ls = leaves(x)
                ref = uf("box:" + t, [l.sort() for l in ls], Ref)(*ls) if ls else z3.Const("box0:" + t, Ref)
            except TypeError:
                ref = z3.Const(fresh_name("box"), Ref)
        else:
            ref = z3.Const(fresh_name("box"), Ref)
        st.assume(ref != NIL)
        st.assume(dyntype(ref) == tid)
        return IfaceV(ref, (t, x))

    def int_bits(self, t):
        b = self.ir.basic(t)
        if b in UNSIGNED:
            return ("u", UNSIGNED[b])
        if b in SIGNED:
            return ("s", SIGNED[b])
        return None

    def wrap(self, term, t):
        ib = self.int_bits(t)
        if ib and ib[0] == "u":
            return term % (1 << ib[1])
        return term

    def binop(self, st, op, x, y, t, ins):
        if op in ("==", "!="):
            e = to_bool(st.eq(x, y))
            return e if op == "==" else z3.Not(e)
        if isinstance(x, bool):
            x = z3.BoolVal(x)
        if is_z3(x) and x.sort() == Str:
            if op == "+":
                return uf("strcat", [Str, Str], Str)(x, y)
            if op in ("<", "<=", ">", ">="):
                lt = uf("strlt", [Str, Str], z3.BoolSort())
                return {"<": lt(x, y), ">": lt(y, x), "<=": z3.Not(lt(y, x)), ">=": z3.Not(lt(x, y))}[op]
            raise Unsupported("string op " + op)
        x, y = to_int(x), to_int(y)
        if op == "+":
            return self.wrap(x + y, t)
        if op == "-":
            return self.wrap(x - y, t)
        if op == "*":
            return self.wrap(x * y, t)
        if op == "/":
            if x.sort() == z3.RealSort():
                return x / y
            self.check_cond(None, st, y != 0, "div-by-zero", ins)
            # Go truncates toward zero
            return z3.If(z3.Or(x >= 0, x % y == 0), x / y, z3.If(y > 0, x / y + 1, x / y - 1)) if not (self.int_bits(t) or ("u",))[0] == "u" else x / y
        if op == "%":
            return z3.If(x >= 0, x % y, -((-x) % y)) if not (self.int_bits(t) or ("u",))[0] == "u" else x % y
        if op == "<":
            return x < y
        if op == "<=":
            return x <= y
        if op == ">":
            return x > y
        if op == ">=":
            return x >= y
        if op in ("&", "|", "^", "<<", ">>", "&^"):
            return uf("bitop" + op, [z3.IntSort(), z3.IntSort()], z3.IntSort())(x, y)
        raise Unsupported("binop " + op)

    def convert(self, st, x, ft, tt):
        ir = self.ir
        fb, tb = ir.basic(ft) if ft else None, ir.basic(tt)
        if is_z3(x) and x.sort() == z3.IntSort() and tb in INT_RANGES:
            flo, fhi = INT_RANGES.get(fb, (None, None))
            tlo, thi = INT_RANGES[tb]
            if flo is not None and flo >= tlo and fhi <= thi:
                return x
            ib = self.int_bits(tt)
            if ib is None:
                return x
            n = ib[1]
            if ib[0] == "u":
                return x % (1 << n)
            return ((x + (1 << (n - 1))) % (1 << n)) - (1 << (n - 1))
        if is_z3(x) and x.sort() == z3.IntSort() and tb in ("float64", "float32"):
            return z3.ToReal(x)
        if is_z3(x) and x.sort() == z3.RealSort() and tb in INT_RANGES:
            r = z3.ToInt(x)
            return r
        if is_z3(x) and x.sort() == z3.RealSort():
            return x
        if is_z3(x) and x.sort() == Str and tb == "string":
            return x
        if isinstance(x, SliceV) and tb == "string":
            return uf("bytes2str", [z3.IntSort()], Str)(x.len)
        if is_z3(x) and x.sort() == Str and ir.kind(tt) == "slice":
            return st.fresh(tt, "str2bytes")
        if is_z3(x) and x.sort() == z3.IntSort() and tb == "string":
            return uf("rune2str", [z3.IntSort()], Str)(x)
        if isinstance(x, PtrV) or (is_z3(x) and x.sort() == Ref):
            return x
        raise Unsupported("convert %s -> %s" % (ft, tt))

    def do_slice(self, fr, st, ins):
        A = ins["args"]
        x = self.operand(fr, st, A[0])
        lo = self.operand(fr, st, A[1]) if A[1]["k"] != "none" else None
        hi = self.operand(fr, st, A[2]) if A[2]["k"] != "none" else None
        if isinstance(x, PtrV):
            self.check_nonnil(fr, st, x, ins, "slice")
            x = st.load(x)
            x = SliceV(ins["type"], x.len, x.seq, False)
        if is_z3(x) and x.sort() == Str:
            return uf("substr", [Str, z3.IntSort(), z3.IntSort()], Str)(x, to_int(lo) if lo is not None else z3.IntVal(0),
                                                                        to_int(hi) if hi is not None else z3.IntVal(-1))
        if not isinstance(x, SliceV):
            raise Unsupported("slice of %r" % type(x))
        lo_t = to_int(lo) if lo is not None else z3.IntVal(0)
        hi_t = to_int(hi) if hi is not None else x.len
        if lo is not None or hi is not None:
            self.check_cond(fr, st, z3.And(0 <= lo_t, lo_t <= hi_t), "slice-bounds", ins)
            if hi is not None:
                # hi may go up to cap; we only know len: treat hi <= len as required
                self.check_cond(fr, st, hi_t <= x.len, "slice-bounds-hi", ins)
        seq = x.seq
        slo = z3.simplify(lo_t)
        if isinstance(seq, SeqLit) and z3.is_int_value(slo) and z3.is_int_value(z3.simplify(hi_t)):
            seq = SeqLit(seq.items[slo.as_long():z3.simplify(hi_t).as_long()])
        elif not (z3.is_int_value(slo) and slo.as_long() == 0):
            seq = SeqOff(seq, lo_t)
        return SliceV(ins["type"], z3.simplify(hi_t - lo_t), seq, x.nil if lo is None and hi is None else False)

    def type_assert(self, fr, st, x, T, commaok, ins):
        ir = self.ir
        if not isinstance(x, IfaceV):
            raise Unsupported("type assert on %r" % type(x))
        if ir.is_iface(T):
            ok = self.iface_implements(st, x, T, ins["args"][0].get("t"))
            res = IfaceV(x.ref, x.dyn)
        else:
            if x.dyn is not None:
                ok = z3.BoolVal(x.dyn[0] == T)
                res = x.dyn[1] if x.dyn[0] == T else st.zero(T)
            else:
                ok = z3.And(x.ref != NIL, dyntype(x.ref) == type_id(T))
                res = self.unbox(st, x.ref, T)
        if commaok:
            if not z3.is_true(z3.simplify(ok)) and not ir.is_iface(T):
                res = st.ite(ok, res, st.zero(T))
            return TupleV([res, ok])
        self.check_cond(fr, st, ok, "type-assert:" + short_t(T), ins)
        st.assume(ok)
        return res

    def unbox(self, st, ref, T):
        k = self.ir.kind(T)
        if k == "basic":
            srt = st.leaf_sort(T)
            return uf("unbox:" + T, [Ref], srt)(ref)
        return st.from_uf(T, "unbox:" + T, [ref])

    def iface_implements(self, st, x, T, static_t=None):
        ir = self.ir
        need = [m["name"] for m in (ir.types[ir.under(T)].get("methods") or [])]
        if static_t is not None and x.dyn is None and ir.is_iface(static_t):
            have = {m["name"] for m in (ir.types[ir.under(static_t)].get("methods") or [])}
            if all(n in have for n in need):
                return x.ref != NIL
        if x.dyn is not None:
            dt = x.dyn[0]
            ti = ir.types.get(dt)
            have = set()
            if ti:
                if ti["kind"] == "pointer":
                    e = ir.types.get(ti["elem"], {})
                    have = {m["name"] for m in (e.get("pmethods") or []) + (e.get("methods") or [])}
                else:
                    have = {m["name"] for m in ti.get("methods") or []}
            return z3.BoolVal(all(n in have for n in need))
        if not need:
            return x.ref != NIL
        return z3.And(x.ref != NIL, uf("implements:" + T, [Ref], z3.BoolSort())(x.ref))


def short_t(t):
    from .ir import short
    return short(t)
