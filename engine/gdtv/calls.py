"""Calls: builtins, library models, contract application, inlining, interface dispatch, defers, select."""
import z3
from .vals import *
from .state import State, Unsupported, Ev
from .exec import Outcome, Frame
from .ir import short, MOD

EFFECT_FREE_PREFIXES = (
    "(*go.uber.org/zap.SugaredLogger).", "go.uber.org/zap", "github.com/ipfs/go-log",
    "(*github.com/ipfs/go-log/v2.ZapEventLogger).",
    "go.opentelemetry.io/otel", "(go.opentelemetry.io/otel", "(*go.opentelemetry.io/otel",
    "fmt.Sprintf", "fmt.Sprint", "fmt.Sprintln", "strconv.", "strings.",
    "(github.com/libp2p/go-libp2p/core/peer.ID).String", "(github.com/libp2p/go-libp2p/core/peer.ID).Pretty",
    "(github.com/ipfs/go-cid.Cid).String", "(github.com/libp2p/go-libp2p/core/peer.ID).ShortString",
    "(time.Time).", "(time.Duration).", "time.Since", "time.Until",
    "context.Background", "context.TODO", "context.WithValue",
    "(github.com/ipfs/go-graphsync.RequestID).String", "(github.com/ipfs/go-graphsync.RequestID).Tag",
    "(github.com/ipld/go-ipld-prime/linking/cid.Link).String", "(*sync.Once)",
    "(github.com/ipfs/go-graphsync.ResponseStatusCode).", "(github.com/ipfs/go-graphsync.RequestNotFoundErr).",
    "errors.As", "errors.Unwrap", "(github.com/libp2p/go-libp2p/core/protocol.ID)", "unicode", "math.", "sort.",
)


class _Marker:
    def __init__(self, n):
        self.n = n

    def __repr__(self):
        return self.n


PANIC = _Marker("PANIC")
CUT = _Marker("CUT")


def is_effect_free(name):
    if name.endswith(").String") or name.endswith(").Error") and not name.startswith("(*github.com/filecoin-project/go-data-transfer"):
        return True
    return any(name.startswith(p) for p in EFFECT_FREE_PREFIXES)


class Calls:
    """mixin for the engine"""

    # ------------------------------------------------------------------ call instruction
    def do_call_instr(self, fr, st, ins):
        op = ins["op"]
        aux = ins["aux"]
        args = [self.operand(fr, st, a) for a in ins["args"]]
        if op == "Defer":
            fr.defers.append((ins, args))
            return None
        if op == "Go":
            name, fargs = self.describe_callee(st, aux, args)
            st.log(name, fargs, [], ins.get("pos"), "go")
            self.on_go(fr, st, ins, name, fargs)
            return None
        outs = self.call(fr, st, ins, aux, args)
        return self._continue_call(fr, st, ins, outs)

    def _continue_call(self, fr, st, ins, outs):
        """outs: list of (state, result_value|None|'panic')"""
        live = []
        res = []
        for (s2, v) in outs:
            if v is PANIC:
                res.append(Outcome("panic", s2, None, ins.get("pos")))
            elif v is CUT:
                res.append(Outcome("cut", s2, None, "callee cut"))
            else:
                live.append((s2, v))
        if len(live) == 1 and not res and live[0][0] is st:
            if ins.get("name"):
                fr.env[ins["name"]] = live[0][1]
            return None
        for i, (s2, v) in enumerate(live):
            f2 = fr.clone() if i < len(live) - 1 else fr
            if ins.get("name"):
                f2.env[ins["name"]] = v
            res.extend(self.exec_from(f2, s2))
        return res

    def describe_callee(self, st, aux, args):
        mode = aux["mode"]
        if mode in ("static", "builtin"):
            return aux["callee"], args
        if mode == "invoke":
            return aux["callee"], args
        f = args[0]
        if isinstance(f, FuncV):
            if f.fn:
                return f.fn, list(f.bindings) + args[1:]
            if f.bound:
                return f.bound, list(f.bindings) + args[1:]
            return "dyn." + (short(f.t).rsplit("/", 1)[-1].rsplit(".", 1)[-1] if f.t and "func(" not in short(f.t) else "func"), args
        return "dyn.func", args

    def pack(self, sig_results, vals):
        if len(sig_results) == 0:
            return None
        if len(sig_results) == 1:
            return vals[0]
        return TupleV(vals)

    # returns list of (state, value)
    def call(self, fr, st, ins, aux, args):
        mode = aux["mode"]
        sigt = self.ir.types[aux["sig"]]
        rtypes = sigt.get("results") or []
        pos = ins.get("pos")
        if mode == "builtin":
            return [(st, self.builtin(fr, st, aux["callee"], args, ins))]
        if mode == "static":
            return self.call_named(fr, st, aux["callee"], args, rtypes, pos, ins)
        if mode == "invoke":
            recv = args[0]
            mname = aux["method"]
            self.check_cond(fr, st, recv.ref != NIL, "nil-invoke:" + mname, ins)
            st.assume(recv.ref != NIL)
            if recv.dyn is not None:
                fname = self.ir.method_func(recv.dyn[0], mname)
                if fname and fname in self.ir.funcs:
                    return self.call_named(fr, st, fname, [recv.dyn[1]] + args[1:], rtypes, pos, ins)
                return self.call_named(fr, st, "(%s).%s" % (recv.dyn[0], mname), [recv.dyn[1]] + args[1:], rtypes, pos, ins)
            return self.call_iface(fr, st, aux["iface"], mname, args, rtypes, pos, ins)
        # closure / dynamic
        f = args[0]
        if isinstance(f, FuncV):
            if f.ref is not None and (f.fn or f.bound):
                self.check_cond(fr, st, f.ref != NIL, "nil-func-call", ins)
                st.assume(f.ref != NIL)
            if f.fn and f.fn.startswith("builtin:"):
                return [(st, self.builtin(fr, st, f.fn[8:], args[1:], ins))]
            if f.fn:
                return self.call_named(fr, st, f.fn, args[1:], rtypes, pos, ins, freevars=list(f.bindings))
            if f.bound:
                # bound method value: (T).M$bound with receiver binding
                recv = f.bindings[0]
                tname, mname = f.bound.rsplit(".", 1)
                tname = tname.strip("()")
                if isinstance(recv, IfaceV):
                    self.check_cond(fr, st, recv.ref != NIL, "nil-invoke:" + mname, ins)
                    if recv.dyn is not None:
                        fname = self.ir.method_func(recv.dyn[0], mname)
                        if fname and fname in self.ir.funcs:
                            return self.call_named(fr, st, fname, [recv.dyn[1]] + args[1:], rtypes, pos, ins)
                    return self.call_iface(fr, st, tname, mname, [recv] + args[1:], rtypes, pos, ins)
                fname = f.bound
                return self.call_named(fr, st, fname, [recv] + args[1:], rtypes, pos, ins)
            # symbolic function value
            if f.ref is not None and str(f.ref) in st.ghost.get("cancel_funcs", {}):
                return [(st, None)]     # context.CancelFunc: no effect on the channel layer
            if f.ref is not None:
                ti = self.type_invs.get(f.t)
                if ti is not None and any(cl.kind == "nonnil" and "." in cl.extra.get("fields", []) for cl in ti.clauses):
                    st.assume(f.ref != NIL)     # declared input validity: values of this function type are never nil
                    self.used_contracts.add("extern nonnil values of " + short(f.t))
                self.check_cond(fr, st, f.ref != NIL, "nil-func-call", ins)
            dname = "dyn." + (short(f.t).rsplit("/", 1)[-1].rsplit(".", 1)[-1] if f.t and "func(" not in short(f.t) else "func")
            dd = self.contract_for(dname)
            if dd is not None:
                return self.apply_contract(fr, st, dd, dname, None, args, rtypes, pos, ins)
            if st.held and self.cur is not None and not self.quiet:
                # a function value called under a lock: either its type has a declared effect (dyn.<Type> contract, above), or it is a
                # parameter the contract lists under `invokes` (then each call site answers for what it hands in)
                ok = False
                for pn in self.cur["decl"].attrs.get("invokes") or []:
                    pv = self.cur["names"].get(pn)
                    if isinstance(pv, FuncV) and pv.ref is not None and f.ref is not None and z3.eq(pv.ref, f.ref):
                        ok = True
                o = self.obl("lock", "callout-effect-declared", self.lock_props())
                o.instances += 1
                if ok:
                    o.proved += 1
                else:
                    o.failed.append({"pos": pos, "reason": "a %s value is called with %s held, but no contract declares its `acquires` effect" % (
                        dname[4:], ", ".join(str(h[4]) for h in st.held))})
            return self.effect_call(st, dname, args, rtypes, pos)
        raise Unsupported("call of %r" % (f,))

    def call_iface(self, fr, st, iface_t, mname, args, rtypes, pos, ins):
        recv = args[0]
        if self.is_pure_method(iface_t, mname):
            pu = self.pure_uf(mname, self.ir.iface_method_sig(iface_t, mname))
            name = pu[0] if pu else "m." + mname
            al = leaves(TupleV(args[1:])) if len(args) > 1 else []
            vals = [st.from_uf(rt, name + ("#%d" % i if len(rtypes) > 1 else ""), [recv.ref] + al) for i, rt in enumerate(rtypes)]
            return [(st, self.pack(rtypes, vals))]
        cname = "(%s).%s" % (iface_t, mname)
        if self.cur is not None and not self.quiet and iface_t.startswith(self.MODULE):
            d = self.contract_for(cname)
            if d is None or "acq" not in d.attrs:
                rel = self.lock_relevant_funcs()
                locky = [f for f in self.implementors(iface_t, mname) if f in rel]
                if st.held or locky:
                    o = self.obl("lock", "callout-effect-declared", self.lock_props())
                    o.instances += 1
                    o.failed.append({"pos": pos, "iface_method": cname, "reason": "%s.%s is called%s, but its contract declares no `acquires` effect%s" % (
                        short(iface_t), mname, (" with %s held" % ", ".join(str(h[4]) for h in st.held)) if st.held else "",
                        ("; implemented by %s, which can reach a mutex" % ", ".join(short(f) for f in locky)) if locky else "")})
        return self.call_named(fr, st, cname, args, rtypes, pos, ins)

    def call_named(self, fr, st, name, args, rtypes, pos, ins, freevars=None):
        """static callee by full name; decides model / contract / inline / effect"""
        m = self.models.get(name)
        if m is not None:
            r = m(self, fr, st, name, args, rtypes, ins)
            if r is not NotImplemented:
                return r
        decl = self.contract_for(name)
        fn = self.ir.funcs.get(name)
        if decl is not None and "inline" not in decl.flags and not (fr.top and False):
            if name == fr.stack[0] and len(fr.stack) == 1 and False:
                pass
            return self.apply_contract(fr, st, decl, name, fn, args, rtypes, pos, ins)
        if fn is not None and not fn.get("generated"):
            if name in fr.stack:
                raise Unsupported("recursive call of %s without contract" % short(name))
            if fr.depth < self.inline_depth:
                self.stats["inlined"] += 1
                outs = self.run(fn, args, st, fr.depth + 1, freevars=freevars, stack=fr.stack)
                res = []
                for o in outs:
                    if o.kind == "ret":
                        res.append((o.st, self.pack(rtypes, o.results)))
                    elif o.kind == "panic":
                        res.append((o.st, PANIC))
                    elif o.kind == "cut":
                        res.append((o.st, CUT))
                return res
            st.notes.append(("abstract", "inline depth exceeded at " + short(name)))
        if is_effect_free(name) or (decl is not None and "effectfree" in decl.flags):
            vals = [st.fresh(rt, "r") for rt in rtypes]
            for v in vals:
                # library values of the whitelisted (logging / tracing / formatting) APIs are real objects
                if isinstance(v, IfaceV) and not name.startswith("errors."):
                    st.assume(v.ref != NIL)
                elif isinstance(v, PtrV):
                    st.assume(z3.Not(to_bool(v.nil)))
            self.abstracted.add(short(name))
            return [(st, self.pack(rtypes, vals))]
        return self.effect_call(st, name, args, rtypes, pos)

    def assume_nonnil_values(self, st, vals):
        """function types declared `nonnil .` (input validity / assumed of a dependency): a value of that type is never nil"""
        for v in vals:
            if isinstance(v, FuncV) and v.ref is not None and v.t:
                ti = self.type_invs.get(v.t)
                if ti is not None and any(cl.kind == "nonnil" and "." in cl.extra.get("fields", []) for cl in ti.clauses):
                    st.assume(v.ref != NIL)
                    self.used_contracts.add("extern nonnil values of " + short(v.t))

    def effect_call(self, st, name, args, rtypes, pos, kind="call"):
        vals = [st.fresh(rt, "r") for rt in rtypes]
        self.assume_nonnil_values(st, vals)
        st.log(name, args, vals, pos, kind)
        self.unmodelled.add(short(name))
        return [(st, self.pack(rtypes, vals))]

    # ------------------------------------------------------------------ contracts at call sites
    def apply_contract(self, fr, st, decl, name, fn, args, rtypes, pos, ins):
        from .speceval import SpecCtx
        flags = decl.flags
        # bind formals
        names = {}
        if fn is not None:
            for p, a in zip(fn["params"], args):
                names[p["name"]] = a
        pnames = decl.attrs.get("params")
        if pnames:
            for n, a in zip(pnames, args):
                names[n] = a
        for i, a in enumerate(args):
            names["$%d" % i] = a
        entry = st
        ntypes = {}
        if fn is not None:
            ntypes = {p["name"]: p["type"] for p in fn["params"]}
            for i, r in enumerate(fn["results"]):
                ntypes["result%d" % i] = r["type"]
                if r["name"]:
                    ntypes[r["name"]] = r["type"]
            if fn["results"]:
                ntypes.setdefault("result", fn["results"][0]["type"])
                if fn["results"][-1]["type"] == "error":
                    ntypes.setdefault("err", "error")
        else:
            sg = self.sig_of(name)
            if sg is not None:
                for i, t in enumerate(sg[0]):
                    ntypes["$%d" % i] = t
                    if pnames and i < len(pnames):
                        ntypes[pnames[i]] = t
                for i, t in enumerate(sg[1]):
                    ntypes["result%d" % i] = t
        ctx = SpecCtx(self, st, entry, names, fr_pkg=(fn["pkg"] if fn else decl.pkg))
        ctx.name_types = ntypes
        for cl in decl.get("requires"):
            goal = to_bool(ctx.eval(cl.ast))
            self.check_pre(fr, st, goal, decl, cl, ins)
            st.assume(goal)
        self.check_locked_pre(fr, st, decl, name, args, ins)
        self.callee_lock_effects(fr, st, decl, name, args, ins)
        vals = [st.fresh(rt, "r") for rt in rtypes]
        self.assume_nonnil_values(st, vals)
        if "effectfree" in flags:
            for v in vals:
                if isinstance(v, IfaceV) and not (rtypes and rtypes[-1] == "error" and v is vals[-1]):
                    st.assume(v.ref != NIL)
                elif isinstance(v, PtrV):
                    st.assume(z3.Not(to_bool(v.nil)))
        if decl.get("constructor") and len(vals) == 1 and isinstance(vals[0], PtrV):
            st.assume(z3.Not(to_bool(vals[0].nil)))      # proved on the constructor: valid[result-nonnil]
        # results bound
        rn = dict(names)
        self.bind_results(rn, fn, vals, rtypes, decl)
        pre_state = st.clone() if decl.get("modifies") or any("old(" in c.text for c in decl.get("ensures")) else st
        for cl in decl.get("modifies"):
            self.havoc_modifies(st, cl, names, fn, decl)
        if decl.get("modifies") and fn is not None and fn.get("recv") and args and isinstance(args[0], PtrV):
            # the callee returns with its receiver's data-structure invariants re-established (proved on the callee: inv[...])
            rt = self.ir.types[self.ir.under(fn["params"][0]["type"])].get("elem")
            dti = self.type_invs.get(rt)
            if dti is not None:
                try:
                    selfv = st.load(args[0])
                    held = [h[4] for h in st.held if h[3] == rt]
                    for icl in dti.clauses:
                        if icl.kind == "invariant" and icl.ast is not None and icl.extra.get("lock") not in held:
                            ictx = SpecCtx(self, st, st, {"self": selfv}, fr_pkg=dti.pkg)
                            ictx.pol = -1
                            ictx.token_obj = (args[0], rt)
                            st.assume(to_bool(ictx.eval(icl.ast)))
                except (Unsupported, Exception):
                    pass
        ctx2 = SpecCtx(self, st, pre_state, rn, fr_pkg=(fn["pkg"] if fn else decl.pkg))
        ctx2.name_types = ntypes
        ctx2.pol = -1
        for cl in decl.get("ensures"):
            for part in (cl.extra.get("caller_view") if cl.extra.get("trace") else [cl.ast]):
                st.assume(to_bool(ctx2.eval(part)))
        try:
            for (pcl, pch) in self.promises_of(st, decl, name, args, extra_names=rn):
                if not isinstance(pch.nil, bool):
                    st.assume(z3.Not(to_bool(pch.nil)))     # a promised channel exists (proved on the callee: blocking[promises:...])
                self.promise(st, pch)
        except (SpecError, Unsupported):
            pass
        if self.cur is not None and not self.quiet and self.cur["decl"].get("prompt") and name in self.may_block_funcs() and not decl.get("prompt"):
            o = self.obl("blocking", "prompt-callee:%s" % short(name).rsplit(".", 1)[-1], self.cur["decl"].get("prompt")[0].tags or None)
            o.instances += 1
            o.failed.append({"pos": pos, "reason": "%s can wait on a channel and is not declared `prompt`" % short(name)})
        kind = "call"
        if "pure" in flags or "effectfree" in flags:
            kind = None
        elif "reads" in flags:
            kind = "read"
        if kind:
            st.log(name, args, vals, pos, kind)
        self.used_contracts.add(("extern " if decl.kind == "extern" else "") + decl.name)
        if "noreturn" in flags:
            return [(st, PANIC)]
        return [(st, self.pack(rtypes, vals))]

    def bind_results(self, names, fn, vals, rtypes, decl=None):
        for i, v in enumerate(vals):
            names["result%d" % i] = v
        if vals and "result" not in names:
            names["result"] = vals[0]
        if fn is not None:
            for r, v in zip(fn["results"], vals):
                if r["name"] and r["name"] != "_":
                    names[r["name"]] = v
        if rtypes and rtypes[-1] == "error" and "err" not in names:
            names["err"] = vals[-1]
        elif rtypes and rtypes[-1] == "error":
            names["$err"] = vals[-1]
        if rtypes and rtypes[-1] == "bool" and len(rtypes) > 1 and "ok" not in names:
            names["ok"] = vals[-1]

    def havoc_modifies(self, st, cl, names, fn, decl):
        from .speceval import SpecCtx
        ctx = SpecCtx(self, st, st, names, fr_pkg=(fn["pkg"] if fn else decl.pkg))
        from .speceval import uses_trace
        for part in cl.extra["targets"]:
            if uses_trace(part):
                continue      # names an object through the callee's own trace: covered by the enclosing map's footprint
            try:
                p = ctx.eval_addr(part)
            except Exception:
                p = ctx.eval(part)
            if isinstance(p, IfaceV) and p.dyn is not None and isinstance(p.dyn[1], PtrV):
                p = p.dyn[1]     # an interface{} argument wrapping a pointer (out parameter)
            if isinstance(p, PtrV):
                cur = st.load(p)
                nw = len(st.writes)
                st.store(p, self.havoc_like(st, cur))
                del st.writes[nw:]
            elif isinstance(p, MapV):
                c = st.map_contents(p)
                st.heap[p.cell] = MapC(z3.Const(fresh_name("mapbase"), z3.IntSort()), (), c.kt, c.vt)

    def havoc_like(self, st, v):
        if is_z3(v):
            return z3.Const(fresh_name("hv"), v.sort())
        if isinstance(v, StructV):
            return st.fresh(v.t, "hv")
        if isinstance(v, SliceV):
            return st.fresh(v.t, "hv")
        if isinstance(v, IfaceV):
            return IfaceV(z3.Const(fresh_name("hv"), Ref))
        if isinstance(v, PtrV):
            return st.fresh(v.t, "hv")
        if isinstance(v, MapV):
            return v
        if isinstance(v, FuncV):
            return FuncV(ref=z3.Const(fresh_name("hvfn"), Ref), t=v.t)
        if isinstance(v, ChanV):
            return ChanV(v.t, z3.Const(fresh_name("hvch"), Ref), z3.Const(fresh_name("hvchnil"), z3.BoolSort()))
        raise Unsupported("havoc %r" % type(v))

    # ------------------------------------------------------------------ builtins
    def builtin(self, fr, st, name, args, ins):
        if name == "len":
            x = args[0]
            if isinstance(x, SliceV):
                return x.len
            if is_z3(x) and x.sort() == Str:
                r = uf("strlen", [Str], z3.IntSort())(x)
                st.assume(r >= 0)
                st.assume((r == 0) == (x == str_lit("")))
                return r
            if isinstance(x, MapV):
                if x.cell is None:
                    return z3.IntVal(0)
                c = st.map_contents(x)
                if c.base is None and not c.ups:
                    return z3.IntVal(0)
                r = z3.Const(fresh_name("maplen"), z3.IntSort())
                st.assume(r >= 0)
                return r
            if isinstance(x, ChanV):
                r = z3.Const(fresh_name("chanlen"), z3.IntSort())
                st.assume(r >= 0)
                return r
            raise Unsupported("len of %r" % type(x))
        if name == "cap":
            x = args[0]
            r = z3.Const(fresh_name("cap"), z3.IntSort())
            if isinstance(x, SliceV):
                st.assume(r >= x.len)
            return r
        if name == "append":
            s, more = args[0], args[1]
            if is_z3(more):  # append([]byte, string...)
                return st.fresh(s.t, "app")
            sl = z3.simplify(more.len)
            if isinstance(more.seq, SeqLit):
                items = more.seq.items
            elif z3.is_int_value(sl) and sl.as_long() <= 8:
                items = [st.seq_read(more.seq, z3.IntVal(i), more.t) for i in range(sl.as_long())]
            else:
                return SliceV(s.t, s.len + more.len, SeqCat(s.seq, s.len, more.seq), z3.And(to_bool(s.nil), more.len == 0))
            if not items:
                return s
            if isinstance(s.seq, SeqLit) and z3.is_int_value(z3.simplify(s.len)) and z3.simplify(s.len).as_long() == len(s.seq.items):
                return SliceV(s.t, z3.IntVal(len(s.seq.items) + len(items)), SeqLit(s.seq.items + items), False)
            return SliceV(s.t, s.len + len(items), SeqApp(s.seq, s.len, items), False)
        if name == "delete":
            m, k = args
            if m.cell is not None:
                self.on_map_access(fr, st, m, ins, True)
                c = st.map_contents(m)
                st.map_update(m, k, z3.BoolVal(False), st.zero(c.vt))
            return None
        if name == "close":
            ch = args[0]
            self.check_cond(fr, st, z3.Not(to_bool(ch.nil)), "close-nil-chan", ins)
            st.log("close", [ch], [], ins.get("pos"), "chan")
            return None
        if name == "copy":
            r = z3.Const(fresh_name("copy"), z3.IntSort())
            return r
        if name in ("print", "println"):
            return None
        if name == "ssa:wrapnilchk":
            return args[0]
        if name == "min" or name == "max":
            a, b = to_int(args[0]), to_int(args[1])
            return z3.If(a < b, a, b) if name == "min" else z3.If(a > b, a, b)
        raise Unsupported("builtin " + name)

    # ------------------------------------------------------------------ defers
    def run_defers(self, fr, st):
        if not fr.defers:
            return None
        ins, args = fr.defers.pop()
        outs = self.call(fr, st, ins, ins["aux"], args)
        live = [(s2, v) for (s2, v) in outs if (v is not PANIC and v is not CUT)]
        res = [Outcome("panic", s2, None, ins.get("pos")) for (s2, v) in outs if v is PANIC]
        fr.ip -= 1  # re-execute RunDefers until the stack is empty
        if len(live) == 1 and not res and live[0][0] is st:
            return None
        for i, (s2, v) in enumerate(live):
            f2 = fr.clone() if i < len(live) - 1 else fr
            res.extend(self.exec_from(f2, s2))
        return res

    # ------------------------------------------------------------------ channels / select
    def do_recv(self, fr, st, ch, ins):
        self.on_block(fr, st, ins, [("recv", ch)], True)
        et = self.ir.types[self.ir.under(ch.t)]["elem"]
        v = st.fresh(et, "recv")
        st.log("recv", [ch], [v], ins.get("pos"), "chan")
        if ins["aux"].get("commaok"):
            return TupleV([v, z3.Const(fresh_name("recvok"), z3.BoolSort())])
        return v

    def do_send(self, fr, st, ins):
        ch = self.operand(fr, st, ins["args"][0])
        v = self.operand(fr, st, ins["args"][1])
        if isinstance(ch, ChanV) and self.send_is_nonblocking(st, ch):
            self.promise(st, ch)        # buffered, not full: the send completes at once and the value is there for a receiver
        else:
            self.on_block(fr, st, ins, [("send", ch)], True)
        st.log("send", [ch, v], [], ins.get("pos"), "chan")

    def do_select(self, fr, st, ins):
        aux = ins["aux"]
        states = aux.get("states") or []
        chans = []
        for s in states:
            ch = self.operand(fr, st, s["chan"])
            chans.append(("recv" if s["dir"] == 2 else "send", ch, s))
        self.on_block(fr, st, ins, [(d, c) for d, c, _ in chans], aux["blocking"])
        outs = []
        ncase = len(states)
        choices = list(range(ncase)) + ([-1] if not aux["blocking"] else [])
        for ci, idx in enumerate(choices):
            s2 = st.clone() if ci < len(choices) - 1 else st
            vals = [z3.IntVal(idx), z3.Const(fresh_name("recvok"), z3.BoolSort())]
            received = []
            for j, (d, ch, s) in enumerate(chans):
                if d == "recv":
                    et = self.ir.types[self.ir.under(ch.t)]["elem"]
                    vals.append(s2.fresh(et, "recv") if j == idx else s2.zero(et))
                    if j == idx:
                        received = [vals[-1]]
            if idx >= 0:
                d, ch, s = chans[idx]
                if not z3.is_false(to_bool(ch.nil)):
                    s2.assume(z3.Not(to_bool(ch.nil)))
                    if not s2.feasible():
                        continue
                sent = [self.operand(fr, st, s["send"])] if d == "send" else []
                s2.log("select-" + d, [ch] + sent, received if d == "recv" else [], ins.get("pos"), "chan")     # the received value is $r0 of a select-recv entry
                if d == "recv" and is_z3(ch.ref) and z3.is_app(ch.ref) and ch.ref.decl().name() == "ctx.Done":
                    # a context whose Done channel delivered has a non-nil Err (context package contract)
                    s2.assume(uf("ctx.Err", [Ref], Ref)(ch.ref.arg(0)) != NIL)
                cur = self.cur
                if cur is not None and d == "recv" and cur["decl"].get("cancellable"):
                    cv = cur["names"].get(cur["decl"].get("cancellable")[0].text.strip())
                    if isinstance(cv, IfaceV):
                        dn = uf("ctx.Done", [Ref], Ref)(cv.ref)
                        if z3.is_true(z3.simplify(ch.ref == dn)):
                            s2.ghost["took_done"] = len(s2.trace) - 1
            outs.append((s2, TupleV(vals)))
        return self._continue_call(fr, st, ins, outs)

    def on_block(self, fr, st, ins, chans, blocking):
        pass

