"""Replay templates (model -> in-package Go test run through go test -overlay). Filled in per obligation family."""
import os, json, subprocess, tempfile, time

REPO = os.environ.get("VERIF_REPO", "/repo")
GO124 = "/root/go/pkg/mod/golang.org/toolchain@v0.0.1-go1.24.0.linux-amd64/bin"


def run_overlay(pkg_dir, test_file, source, test_name, timeout=120):
    """inject test_file (path inside the repo package dir, must not exist) via -overlay and run it"""
    work = tempfile.mkdtemp(prefix="replay-", dir=os.environ.get("GDTV_WORK", "/verif/work"))
    try:
        src = os.path.join(work, "replay_test.go")
        with open(src, "w") as f:
            f.write(source)
        ov = os.path.join(work, "overlay.json")
        with open(ov, "w") as f:
            json.dump({"Replace": {os.path.join(REPO, pkg_dir, test_file): src}}, f)
        env = dict(os.environ)
        env["PATH"] = GO124 + ":" + env.get("PATH", "")
        env.update(GOTOOLCHAIN="local", GOFLAGS="-mod=mod", GOPROXY="off")
        env.pop("GOSUMDB", None)
        cmd = ["go", "test", "-overlay", ov, "-vet=off", "-count=1", "-timeout", "60s", "-run", "^" + test_name + "$", "./" + pkg_dir]
        try:
            p = subprocess.run(cmd, cwd=REPO, env=env, capture_output=True, text=True, timeout=timeout)
            out = p.stdout + p.stderr
            failed = p.returncode != 0
            built = "[build failed]" not in out and "[setup failed]" not in out
        except subprocess.TimeoutExpired:
            out, failed, built = "timeout", True, True
        return {"cmd": " ".join(cmd), "output": out[-4000:], "failed": failed and built, "built": built}
    finally:
        import shutil
        shutil.rmtree(work, ignore_errors=True)


TEMPLATES = []


def try_replay(prop, o, f, eng, run_dir):
    if f.get("undecided") or not f.get("model"):
        return None
    for t in TEMPLATES:
        r = t(prop, o, f, eng, run_dir)
        if r is not None:
            return r
    return None
