"""Replay templates (model -> in-package Go test run through go test -overlay). Filled in per obligation family."""
import os, json, subprocess, tempfile, time

REPO = os.environ.get("VERIF_REPO", "/repo")
GO124 = "/root/go/pkg/mod/golang.org/toolchain@v0.0.1-go1.24.0.linux-amd64/bin"


def run_overlay(pkg_dir, test_file, source, test_name, timeout=120):
    """inject test_file (path inside the repo package dir, must not exist) via -overlay and run it"""
    work = tempfile.mkdtemp(prefix="replay-", dir=os.environ.get("GDTV_WORK", "/verif/work"))
    try:
        src = os.path.join(work, "replay_test.go")
        with open(src, "w") as f:
            f.write(source)
        ov = os.path.join(work, "overlay.json")
        with open(ov, "w") as f:
            json.dump({"Replace": {os.path.join(REPO, pkg_dir, test_file): src}}, f)
        env = dict(os.environ)
        env["PATH"] = GO124 + ":" + env.get("PATH", "")
        env.update(GOTOOLCHAIN="local", GOFLAGS="-mod=mod", GOPROXY="off")
        env.pop("GOSUMDB", None)
        cmd = ["go", "test", "-overlay", ov, "-vet=off", "-count=1", "-timeout", "60s", "-run", "^" + test_name + "$", "./" + pkg_dir]
        try:
            p = subprocess.run(cmd, cwd=REPO, env=env, capture_output=True, text=True, timeout=timeout)
            out = p.stdout + p.stderr
            failed = p.returncode != 0
            built = "[build failed]" not in out and "[setup failed]" not in out
        except subprocess.TimeoutExpired:
            out, failed, built = "timeout", True, True
        return {"cmd": " ".join(cmd), "output": out[-4000:], "failed": failed and built, "built": built}
    finally:
        import shutil
        shutil.rmtree(work, ignore_errors=True)


TEMPLATES = []


def try_replay(prop, o, f, eng, run_dir):
    if f.get("undecided"):
        return None
    for t in TEMPLATES:
        r = t(prop, o, f, eng, run_dir)
        if r is not None:
            return r
    return None


# ---------------------------------------------------------------------------------------------
# FSM lemmas: the counterexample is a (status, event) pair; the replay drives the real go-statemachine planner with the
# real ChannelEvents / ChannelStateEntryFuncs / ChannelFinalityStates from that status with that event and confirms
# the transition the engine computed from the extracted table (next status, whether the entry function ran).
ERR_EVENTS = ("Error", "Disconnected", "RequestCancelled", "SendDataError", "ReceiveDataError")
U64_EVENTS = ("DataSentProgress", "DataQueuedProgress", "DataReceivedProgress", "SetDataLimit")
I64_EVENTS = ("DataSent", "DataQueued", "DataReceived")
VOUCHER_EVENTS = ("NewVoucher", "NewVoucherResult")

FSM_TEST = r'''package channels

import (
	"context"
	"errors"
	"sync/atomic"
	"testing"
	"time"

	"github.com/ipfs/go-datastore"
	dss "github.com/ipfs/go-datastore/sync"
	"github.com/ipfs/go-test/random"
	peer "github.com/libp2p/go-libp2p/core/peer"

	datatransfer "github.com/filecoin-project/go-data-transfer/v2"
	"github.com/filecoin-project/go-data-transfer/v2/channels/internal"
	"github.com/filecoin-project/go-data-transfer/v2/testutil"
)

var _ = errors.New

type verifReplayEnv struct {
	cleanups int32
	release  chan struct{}
}

func (e *verifReplayEnv) Protect(id peer.ID, tag string)        {}
func (e *verifReplayEnv) Unprotect(id peer.ID, tag string) bool { return false }
func (e *verifReplayEnv) ID() peer.ID                           { return peer.ID("") }
func (e *verifReplayEnv) CleanupChannel(chid datatransfer.ChannelID) {
	atomic.AddInt32(&e.cleanups, 1)
	<-e.release // keep the channel in its cleanup status so that the status after this one event can be read
}

func TestVerifReplayFSM(t *testing.T) {
	ctx, cancel := context.WithTimeout(context.Background(), 20*time.Second)
	defer cancel()
	ds := dss.MutexWrap(datastore.NewMapDatastore())
	env := &verifReplayEnv{release: make(chan struct{})}
	defer close(env.release)
	peers := random.Peers(2)
	c, err := New(ds, func(datatransfer.Event, datatransfer.ChannelState) {}, env, peers[0])
	if err != nil {
		t.Skip("setup:", err)
	}
	if err := c.Start(ctx); err != nil {
		t.Skip("setup:", err)
	}
	voucher := testutil.NewTestTypedVoucher()
	_ = voucher
	chid := datatransfer.ChannelID{Initiator: peers[0], Responder: peers[1], ID: 7}
	err = c.stateMachines.Begin(chid, &internal.ChannelState{
		SelfPeer: peers[0], TransferID: 7, Initiator: peers[0], Responder: peers[1], BaseCid: random.Cids(1)[0],
		Selector: internal.CborGenCompatibleNode{Node: testutil.AllSelector()}, Sender: peers[0], Recipient: peers[1],
		Stages:   &datatransfer.ChannelStages{},
		Vouchers: []internal.EncodedVoucher{{Type: voucher.Type, Voucher: internal.CborGenCompatibleNode{Node: voucher.Voucher}}},
		Status:   datatransfer.Status(@STATUS@),
	})
	if err != nil {
		t.Skip("setup:", err)
	}
	sendErr := c.stateMachines.Send(chid, datatransfer.EventCode(@EVENT@)@ARGS@)
	var out internal.ChannelState
	if err := c.stateMachines.GetSync(ctx, chid, &out); err != nil {
		t.Skip("read back:", err)
	}
	time.Sleep(300 * time.Millisecond) // an entry function, if any, has started by now
	var out2 internal.ChannelState
	_ = c.stateMachines.Get(chid).Get(&out2)
	ran := atomic.LoadInt32(&env.cleanups) > 0
	t.Logf("real code: %s --%s--> %s, entry function ran: %v, send error: %v", datatransfer.Statuses[datatransfer.Status(@STATUS@)],
		datatransfer.Events[datatransfer.EventCode(@EVENT@)], datatransfer.Statuses[out2.Status], ran, sendErr)
	if uint64(out2.Status) != @NEXT@ || ran != @ENTRY@ {
		t.Skipf("VERIF-REPLAY-MODEL-MISMATCH: the engine computed next status %d, entry function ran %v", @NEXT@, @ENTRY@)
	}
	t.Fatalf("VERIF-REPLAY-CONFIRMED: the transition of the counterexample exists on the real code (obligation @OBL@)")
}
'''


def fsm_template(prop, o, f, eng, run_dir):
    if o.get("kind") != "lemma" or not f.get("status") or getattr(eng, "fsm", None) is None:
        return None
    fsm = eng.fsm
    if not f.get("event"):
        # the lemma names its event literally instead of quantifying over events: take it if it is the only one named
        import re
        m = re.search(r"lemma\[(.*)\]$", o["name"])
        decl = [d for d in eng.decls if d.kind == "lemma" and m and d.name == m.group(1)]
        if decl:
            words = set(re.findall(r"[A-Za-z_]\w*", decl[0].clauses[0].text))
            evs = [n for n in fsm.event_names.values() if n in words]
            if len(evs) == 1:
                f = dict(f, event=evs[0])
    if not f.get("event"):
        return None
    byev = {v: k for k, v in fsm.event_names.items()}
    byst = {v: k for k, v in fsm.status_names.items()}
    if f["event"] not in byev or f["status"] not in byst or byev[f["event"]] not in fsm.events:
        return None
    E, S = byev[f["event"]], byst[f["status"]]
    b = fsm.events[E]
    d = b.trans.get(S, b.trans.get(None))
    is_final = S in fsm.final
    applied = (not is_final) and d is not None
    new = d[1] if applied and d[0] == "to" else S
    record = applied and d[0] == "record"
    entry = applied and not record and new in fsm.entry and new not in fsm.final
    ev = f["event"]
    if ev in ERR_EVENTS:
        args = ', errors.New("replay")'
    elif ev in U64_EVENTS:
        args = ", uint64(1)"
    elif ev in I64_EVENTS:
        args = ", int64(1)"
    elif ev in VOUCHER_EVENTS:
        args = ", voucher"
    elif ev == "SetRequiresFinalization":
        args = ", true"
    else:
        args = ""
    src = (FSM_TEST.replace("@STATUS@", str(S)).replace("@EVENT@", str(E)).replace("@ARGS@", args).replace("@NEXT@", str(new))
           .replace("@ENTRY@", "true" if entry else "false").replace("@OBL@", o["name"].replace('"', "'")))
    r = run_overlay("channels", "zz_verif_replay_test.go", src, "TestVerifReplayFSM")
    confirmed = r["built"] and "VERIF-REPLAY-CONFIRMED" in r["output"]
    return {"template": "fsm-transition", "package_dir": "channels", "test_file": "zz_verif_replay_test.go", "test_name": "TestVerifReplayFSM",
            "source": src, "cmd": r["cmd"], "output": r["output"][-1500:], "fails_on_real_code": confirmed,
            "counterexample": {"status": f["status"], "event": f["event"], "predicted_next_status": fsm.status_names.get(new, new),
                               "predicted_entry_function_runs": entry}}


TEMPLATES.append(fsm_template)


# ---------------------------------------------------------------------------------------------
# pure methods on structs with scalar fields (message kind predicates, field accessors): the counterexample is a receiver value;
# the replay builds it in an in-package test, calls the real method and compares with what the contract demands.
PURE_TEST = r'''package @PKGNAME@

import (
	"testing"
@IMPORTS@
)

func TestVerifReplayPure(t *testing.T) {
	recv := @AMP@@TYPE@{@FIELDS@}
	got := recv.@METHOD@()
	t.Logf("real code: (%+v).@METHOD@() = %v; the contract demands %v", recv, got, @DEMANDED@)
	if got == @DEMANDED@ {
		t.Skip("VERIF-REPLAY-MODEL-MISMATCH: the real code returns what the contract demands for this receiver")
	}
	t.Fatalf("VERIF-REPLAY-CONFIRMED: obligation @OBL@ fails on the real code for this receiver")
}
'''


def pure_template(prop, o, f, eng, run_dir):
    pr = f.get("pure_replay")
    if not pr or not pr.get("file"):
        return None
    pkg_dir = os.path.dirname(pr["file"]).replace(REPO.rstrip("/") + "/", "").replace("/repo/", "")
    # package clause of the file the method lives in
    pkgname = None
    try:
        with open(os.path.join(REPO, pkg_dir, os.path.basename(pr["file"]))) as fh:
            for line in fh:
                if line.startswith("package "):
                    pkgname = line.split()[1].strip()
                    break
    except OSError:
        return None
    if not pkgname:
        return None
    tname = pr["type"].rsplit(".", 1)[-1]
    demanded = pr["demanded"]
    if pr["rtype"] not in ("bool", "int", "int64", "uint64"):
        demanded = "%s(%s)" % (pr["rtype"].rsplit("/", 1)[-1].split(".", 1)[-1] if pr["rtype"].startswith(pr["pkg"]) else pr["rtype"].rsplit("/", 1)[-1], demanded)
    imps = "\n".join('\t%s "%s"' % (al, path) for path, al in sorted((pr.get("imports") or {}).items()))
    src = (PURE_TEST.replace("@IMPORTS@", imps).replace("@PKGNAME@", pkgname).replace("@AMP@", "&" if pr["ptr"] else "").replace("@TYPE@", tname)
           .replace("@FIELDS@", ", ".join(pr["fields"])).replace("@METHOD@", pr["method"]).replace("@DEMANDED@", demanded)
           .replace("@OBL@", o["name"].replace('"', "'")))
    r = run_overlay(pkg_dir, "zz_verif_replay_test.go", src, "TestVerifReplayPure")
    confirmed = r["built"] and "VERIF-REPLAY-CONFIRMED" in r["output"]
    return {"template": "pure-method", "package_dir": pkg_dir, "test_file": "zz_verif_replay_test.go", "test_name": "TestVerifReplayPure",
            "source": src, "cmd": r["cmd"], "output": r["output"][-1500:], "fails_on_real_code": confirmed,
            "counterexample": {"receiver": "%s{%s}" % (tname, ", ".join(pr["fields"])), "demanded": pr["demanded"], "predicted": pr["predicted"]}}


TEMPLATES.append(pure_template)
