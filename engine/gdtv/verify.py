"""Engine: contract index, obligation generation per function, solver calls, results."""
import time, collections, traceback
import z3
from .vals import *
from .state import State, Unsupported, Ev
from .exec import Executor, Outcome, Frame
from .calls import Calls
from .conc import Conc
from .models import MODELS
from .spec import parse_contracts, parse_expr, SpecError, Decl, Clause
from .speceval import SpecCtx, uses_trace, match_name
from .ir import short, MOD
from . import solve
from . import fsm as _fsm_models  # registers the builder models


class Obl:
    """one named obligation, aggregated over the paths on which it is generated"""

    def __init__(self, name, kind, props):
        self.name, self.kind, self.props = name, kind, props
        self.instances = 0
        self.proved = 0
        self.failed = []      # list of dict(model=..., pos=..., smt2=..., reason=...)
        self.unknown = []
        self.ms = 0.0
        self.solver = "structural (decided on the symbolic path: lock set, effect set, path feasibility)"
        self.sample = None
        self.covered = None   # for implications: antecedent satisfiable on some path

    @property
    def verdict(self):
        if self.failed:
            return "failed"
        if self.unknown:
            return "unknown"
        return "discharged" if self.instances else "no-instance"


class Engine(Conc, Executor, Calls):
    def __init__(self, ir, timeout_ms=10000):
        self.ir = ir
        self.timeout_ms = timeout_ms
        self.models = MODELS
        self.stats = collections.Counter()
        self.global_axioms = []
        self.quiet = False
        self.abstracted = set()
        self.unmodelled = set()
        self.used_contracts = set()
        self.obls = {}
        self.cur = None           # current function verification context
        self.decls = parse_contracts(ir.contracts)
        self.by_func = {}
        self.pure_methods = {}    # method name -> result types
        self.type_invs = {}
        self.errors = []
        self.init_state = None
        self.inited_pkgs = set()
        self.init_written = set()
        self.fsm = None
        self._index()
        self.index_locks()
        self.index_lockorder()
        self._scan_global_writes()

    # ------------------------------------------------------------------ contract index
    def _index(self):
        ir = self.ir
        for d in self.decls:
            try:
                if d.kind in ("func", "extern"):
                    name = d.name
                    # allow "name(params...)" to name parameters of externs
                    if "(" in name and name.rstrip().endswith(")") and not name.startswith("("):
                        pass
                    m = None
                    if d.kind == "extern" or True:
                        import re
                        m = re.match(r"^(.*?)\s+params\s+(.*)$", name)
                        if m:
                            name = m.group(1).strip()
                            d.attrs["params"] = [x.strip() for x in m.group(2).split(",")]
                    d.name = name
                    full = self.resolve_func_name(name, d)
                    d.attrs["full"] = full
                    self.by_func[full] = d
                    for cl in d.clauses:
                        if cl.kind in ("requires", "ensures", "assume", "invariant", "guarantee"):
                            cl.ast = parse_expr(cl.text)
                            cl.extra["trace"] = uses_trace(cl.ast)
                            cl.extra["caller_view"] = caller_view(cl.ast)
                        elif cl.kind == "refuses":
                            cl.ast = parse_expr(cl.text.split(" -- ")[0])
                        elif cl.kind == "modifies":
                            cl.extra["targets"] = [parse_expr(x.strip()) for x in split_top(cl.text)]
                        elif cl.kind == "after":
                            # after <callee pattern> [label] <assumed fact about that call ($i args, $ri results)>
                            pat, rest = cl.text.split(None, 1)
                            import re
                            m2 = re.match(r"^\[([^\]]+)\]\s*(.*)$", rest.strip(), re.S)
                            if m2:
                                cl.label, rest = m2.group(1), m2.group(2)
                            cl.extra["pattern"] = pat
                            cl.ast = parse_expr(rest)
                        elif cl.kind == "loop":
                            import re
                            m = re.match(r"^(\d+)\s+(invariant|decreases|modifies|step)\s*(\[[^\]]*\])?\s*(.*)$", cl.text)
                            if not m:
                                raise SpecError("bad loop clause: " + cl.text)
                            cl.extra.update(ordinal=int(m.group(1)), what=m.group(2))
                            cl.label = (m.group(3) or "").strip("[]") or cl.label
                            if m.group(2) == "modifies":
                                cl.extra["targets"] = [x.strip() for x in split_top(m.group(4))]
                            else:
                                cl.ast = parse_expr(m.group(4))
                elif d.kind == "interface":
                    t = self.resolve_type_name(d.name, d.pkg)
                    d.attrs["full"] = t
                    for cl in d.clauses:
                        if cl.kind == "pure":
                            for mn in [x.strip() for x in cl.text.split(",") if x.strip()]:
                                sig = ir.iface_method_sig(t, mn)
                                if sig is None:
                                    raise SpecError("interface %s has no method %s" % (d.name, mn))
                                self.pure_methods.setdefault(mn, ir.types[sig].get("results") or [])
                                self.pure_sigs.setdefault(mn, [])
                                if sig not in self.pure_sigs[mn]:
                                    self.pure_sigs[mn].append(sig)
                                self.pure_methods_by_iface.setdefault(t, set()).add(mn)
                        elif cl.kind == "axiom":
                            cl.ast = parse_expr(cl.text)
                elif d.kind == "type":
                    t = self.resolve_type_name(d.name, d.pkg)
                    d.attrs["full"] = t
                    self.type_invs[t] = d
                    locknames = [c.text.split()[0] for c in d.clauses if c.kind == "lock" and c.text.split()]
                    for cl in d.clauses:
                        if cl.kind in ("invariant", "guarantee"):
                            import re as _re
                            m2 = _re.match(r"^(\w+)\s+(?:\[([^\]]+)\]\s*)?(.*)$", cl.text.strip(), _re.S)
                            if m2 and m2.group(1) in locknames:
                                cl.extra["lock"] = m2.group(1)
                                if m2.group(2):
                                    cl.label = m2.group(2)
                                cl.text = m2.group(3)
                            if cl.kind == "invariant" or True:
                                cl.ast = parse_expr(cl.text)
                        elif cl.kind == "nonnil":
                            cl.extra["fields"] = [x.strip() for x in cl.text.split(",") if x.strip()]
                elif d.kind == "define":
                    import re
                    m = re.match(r"^\(([^)]*)\)\s*=>\s*(.*)$", d.clauses[0].text.strip(), re.S)
                    if not m:
                        raise SpecError("define syntax: define [name]: (a, b) => expr")
                    self.defines[d.name] = ([x.strip() for x in m.group(1).split(",") if x.strip()], parse_expr(m.group(2)))
                elif d.kind in ("lemma", "axiom"):
                    pass
            except SpecError as e:
                self.errors.append("%s:%d: %s" % (d.file, d.line, e))

    pure_methods_by_iface = {}
    pure_sigs = {}
    defines = {}

    def pure_uf(self, mname, sig):
        """(uf base name, result types) of a pure interface method with signature sig (None: unambiguous only)"""
        sigs = self.pure_sigs.get(mname) or []
        if sig is None:
            if len(sigs) != 1:
                return None
            sig = sigs[0]
        if sig not in sigs:
            return None
        name = "m." + mname if len(sigs) == 1 else "m.%s@%d" % (mname, sigs.index(sig))
        return name, self.ir.types[sig].get("results") or []

    def sig_of(self, name):
        """(argument types as logged in the trace, result types) of a callee by its SSA name"""
        fn = self.ir.funcs.get(name)
        if fn is not None:
            return [p["type"] for p in fn["params"]], [r["type"] for r in fn["results"]]
        import re
        m = re.match(r"^\((.*)\)\.(\w+)$", name)
        if m and m.group(1) in self.ir.types and self.ir.is_iface(m.group(1)):
            sig = self.ir.iface_method_sig(m.group(1), m.group(2))
            if sig:
                ti = self.ir.types[sig]
                return [m.group(1)] + (ti.get("params") or []), ti.get("results") or []
        return None

    def resolve_type_name(self, name, pkg):
        ir = self.ir
        ptr = name.startswith("*")
        n = name.lstrip("*")
        if "." in n:
            al, tn = n.split(".", 1)
            full = ir.alias.get(al, al) + "." + tn
            if full not in ir.types:
                for path in ir.dep_alias.get(al, []):
                    if path + "." + tn in ir.types:
                        full = path + "." + tn
        else:
            full = pkg + "." + n
        if full not in ir.types:
            raise SpecError("unknown type " + name)
        return ("*" if ptr else "") + full

    def resolve_func_name(self, name, d):
        ir = self.ir
        if name in ir.funcs:
            return name
        if name in ir.by_short:
            return ir.by_short[name]["name"]
        if d.kind == "extern":
            return name
        c = ir.by_alias.get(name)
        if c and len(c) == 1:
            return c[0]["name"]
        import re as _re
        m = _re.match(r"^(\(\*?)?([A-Za-z0-9_]+)\.(.*)$", name)
        if m and m.group(2) in ir.alias:
            cand = (m.group(1) or "") + ir.alias[m.group(2)] + "." + m.group(3)
            if cand in ir.funcs:
                return cand
        # same package bare name
        cand = d.pkg + "." + name
        if cand in ir.funcs:
            return cand
        raise SpecError("contract names unknown function %s" % name)

    def contract_for(self, name):
        d = self.by_func.get(name)
        if d is not None:
            return d
        s = short(name)
        return self.by_func.get(s)

    def is_pure_method(self, iface_t, mname):
        ms = self.pure_methods_by_iface
        if mname in ms.get(iface_t, ()):
            return True
        # embedded interfaces: a method declared pure on any interface is pure wherever it appears by that name
        # only if the static interface embeds the declaring one (approximated by same method name and signature)
        if mname in self.pure_methods:
            sig = self.ir.iface_method_sig(iface_t, mname)
            if sig is not None:
                for t, names in ms.items():
                    if mname in names and self.ir.iface_method_sig(t, mname) == sig:
                        return True
        return False

    def method_rtypes(self, mname):
        return self.pure_methods.get(mname)

    # ------------------------------------------------------------------ globals
    def _scan_global_writes(self):
        """package variables stored to outside package init (=> not init-only)"""
        self.written_globals = set()
        for f in self.ir.funcs.values():
            is_init = f["short"].endswith(".init") or ".init#" in f["short"]
            from_global = {}
            for b in f["blocks"]:
                for ins in b["instrs"]:
                    op = ins["op"]
                    A = ins["args"]
                    if op == "UnOp" and ins["aux"].get("op") == "*" and A and A[0]["k"] == "global":
                        from_global[ins["name"]] = A[0]["n"]
                    if is_init:
                        continue
                    if op == "Store" and A[0]["k"] == "global":
                        self.written_globals.add(A[0]["n"])
                    if op in ("FieldAddr", "IndexAddr") and A and A[0]["k"] == "global":
                        self.written_globals.add(A[0]["n"])   # conservative: address of part taken
                    if op in ("MapUpdate",) and A[0]["k"] == "v" and A[0]["n"] in from_global:
                        self.written_globals.add(from_global[A[0]["n"]])
                    if op == "IndexAddr" and A[0]["k"] == "v" and A[0]["n"] in from_global:
                        # element address of a slice loaded from a global: flag only if stored through
                        from_global[ins["name"]] = "elem:" + from_global[A[0]["n"]]
                    if op == "Store" and A[0]["k"] == "v" and str(from_global.get(A[0]["n"], "")).startswith("elem:"):
                        self.written_globals.add(from_global[A[0]["n"]][5:])
                    if op == "Call" and ins["aux"].get("callee") == "delete" and A and A[0]["k"] == "v" and A[0]["n"] in from_global:
                        self.written_globals.add(from_global[A[0]["n"]])

    def ensure_init(self, pkg):
        if pkg in self.inited_pkgs:
            return
        self.inited_pkgs.add(pkg)
        fn = self.ir.funcs.get(pkg + ".init")
        if self.init_state is None:
            self.init_state = State(self)
        st = self.init_state
        for g in self.ir.globals.values():
            if g["pkg"] == pkg:
                u = self.ir.under(g["type"])
                try:
                    st.heap[("g", g["name"])] = st.zero(self.ir.types[u]["elem"])
                except Unsupported:
                    pass
        if fn is None:
            return
        q = self.quiet
        self.quiet = True
        self.in_init = pkg
        try:
            outs = self.run(fn, [], st, depth=0, stack=("init",))
            rets = [o for o in outs if o.kind == "ret"]
            if len(rets) == 1:
                self.init_state = rets[0].st
                self.init_state.trace = []
                self.init_ok.add(pkg)
            else:
                self.init_notes.append("init of %s: %d returning paths" % (pkg, len(rets)))
        except (Unsupported, SpecError, KeyError, AttributeError, TypeError) as e:
            import traceback
            self.init_notes.append("init of %s not executed: %s\n%s" % (pkg, e, traceback.format_exc()[-1500:]))
        finally:
            self.quiet = q
            self.in_init = None

    init_ok = set()
    init_conj = None
    sentinels = {}
    base_axioms = []
    init_notes = []
    in_init = None

    def global_value(self, st, gname):
        g = self.ir.globals.get(gname)
        et0 = self.global_types.get(gname) if g is None else self.ir.types[self.ir.under(g["type"])]["elem"]
        if et0 == "error":
            # error sentinels: fixed, non-nil, pairwise distinct (never reassigned: frame scan for in-repo ones)
            ref = z3.Const("g!" + short(gname), Ref)
            if gname not in self.sentinels and (g is None or gname not in self.written_globals):
                self.sentinels[gname] = ref
                self.global_axioms = list(self.base_axioms) + [z3.Distinct(NIL, *self.sentinels.values())]
            return IfaceV(ref, None)
        if g is None:
            # dependency package variable: an unconstrained but fixed value
            if et0 is None:
                raise Unsupported("global of dependency without type: " + gname)
            return st.from_uf(et0, "g!" + gname, [])
        pkg = g["pkg"]
        if self.in_init is None or self.in_init != pkg:
            self.ensure_init(pkg)
        u = self.ir.under(g["type"])
        et = self.ir.types[u]["elem"]
        key = ("g", gname)
        if pkg in self.init_ok and gname not in self.written_globals and self.init_state is not None and key in self.init_state.heap:
            # copy cells of the init heap that the value may point into
            for k, v in self.init_state.heap.items():
                if k not in st.heap:
                    st.heap[k] = v
            for k, v in self.init_state.symcells.items():
                st.symcells.setdefault(k, v)
            return self.init_state.heap[key]
        v = st.from_uf(et, "g!" + short(gname), [])
        return v

    def dep_global(self, st, o):
        """value of a dependency's package variable: fixed, unconstrained; error sentinels are distinct non-nil"""
        name = o["n"]
        u = self.ir.under(o["t"])
        et = self.ir.types[u]["elem"]
        v = st.from_uf(et, "g!" + name, [])
        return v

    # ------------------------------------------------------------------ type invariants
    def apply_type_invariant(self, st, t, v, ptr=None):
        d = self.type_invs.get(t)
        if d is None or not isinstance(v, StructV):
            return
        for cl in d.clauses:
            if cl.kind == "nonnil":
                for fld in cl.extra["fields"]:
                    x = v.f.get(fld)
                    if isinstance(x, IfaceV):
                        st.assume(x.ref != NIL)
                    elif isinstance(x, (PtrV, MapV, ChanV)):
                        st.assume(z3.Not(to_bool(x.nil)))
                    elif isinstance(x, FuncV) and x.ref is not None:
                        st.assume(x.ref != NIL)
        for cl in d.clauses:
            if cl.kind == "invariant":
                ctx = SpecCtx(self, st, st, {"self": v}, fr_pkg=d.pkg)
                ctx.pol = -1
                if ptr is not None:
                    ctx.token_obj = (ptr, t)
                try:
                    st.assume(to_bool(ctx.eval(cl.ast)))
                except SpecError as e:
                    msg = "%s:%d: %s" % (cl.file, cl.line, e)
                    if msg not in self.errors:
                        self.errors.append(msg)

    # ------------------------------------------------------------------ solver
    def check_valid(self, st, goal):
        goal = to_bool(goal)
        g = z3.simplify(goal)
        if z3.is_true(g):
            return ("proved", None, None, 0.0, "simplify")
        t0 = time.time()
        s = st.solver()
        s.add(z3.Not(goal))
        r = s.check()
        dt = time.time() - t0
        self.stats["queries"] += 1
        self.stats["solver_ms"] += dt * 1000
        if r == z3.unsat:
            return ("proved", None, s, dt, "z3-5.1.0(py)")
        smt2 = s.to_smt2()
        if r == z3.sat:
            return ("failed", s.model(), s, dt, "z3-5.1.0(py)")
        # unknown: race the other installed solvers on the SMT-LIB text
        v, who, out = solve.race(smt2, self.timeout_ms / 1000.0)
        if v == "unsat":
            return ("proved", None, s, time.time() - t0, who)
        if v == "sat":
            return ("failed", None, s, time.time() - t0, who)
        return ("unknown", None, s, time.time() - t0, "all:" + str(s.reason_unknown()))

    # ------------------------------------------------------------------ obligations
    def obl(self, kind, label, props=None):
        c = self.cur
        name = "%s/%s[%s]" % (c["short"], kind, label)
        o = self.obls.get(name)
        if o is None:
            o = Obl(name, kind, set(props or c["props"]))
            self.obls[name] = o
        return o

    def record(self, o, st, goal, pos=None, assume_after=True):
        o.instances += 1
        verdict, model, solver, dt, who = self.check_valid(st, goal)
        o.ms += dt * 1000
        if who not in ("simplify",):
            o.solver = who
        elif o.solver.startswith("structural"):
            o.solver = "z3-5.1.0(py) simplifier (goal reduces to true)"
        if verdict == "proved":
            o.proved += 1
            if o.sample is None and solver is not None:
                o.sample = solver
        elif verdict == "failed":
            self._last_model = model
            o.failed.append({"pos": pos, "model": model_to_dict(model), "solver": who,
                             "trace": [repr(e) for e in st.trace][-12:], "smt2": solver.to_smt2() if solver is not None else None})
        else:
            o.unknown.append({"pos": pos, "reason": who, "smt2": solver.to_smt2() if solver is not None else None})
        return verdict

    # safety hooks -----------------------------------------------------
    def check_nonnil(self, fr, st, p, ins, what):
        if self.quiet or self.cur is None:
            return
        if isinstance(p, PtrV):
            nil = p.nil
        elif isinstance(p, IfaceV):
            nil = p.ref == NIL
        else:
            return
        if nil is False or (is_z3(nil) and z3.is_false(z3.simplify(nil))):
            return
        lab = "nil-deref:" + what_of(ins, what)
        o = self.obl("safety", lab, self.cur["safety_props"])
        self.record(o, st, z3.Not(to_bool(nil)), ins.get("pos"))
        st.assume(z3.Not(to_bool(nil)))

    def check_index(self, fr, st, i, ln, ins):
        if self.quiet or self.cur is None:
            return
        lab = "index:" + self.src_hint(fr, ins)
        o = self.obl("safety", lab, self.cur["safety_props"])
        goal = z3.And(i >= 0, i < ln)
        self.record(o, st, goal, ins.get("pos"))
        st.assume(goal)

    def check_cond(self, fr, st, cond, kind, ins):
        if self.quiet or self.cur is None:
            return
        cond = to_bool(cond)
        if z3.is_true(z3.simplify(cond)):
            return
        o = self.obl("safety", kind, self.cur["safety_props"])
        self.record(o, st, cond, ins.get("pos") if isinstance(ins, dict) else None)
        st.assume(cond)

    def check_pre(self, fr, st, goal, decl, cl, ins):
        if self.quiet or self.cur is None:
            return
        o = self.obl("pre", "%s:%s" % (short(decl.attrs.get("full", decl.name)).split(".")[-1], cl.label or "pre"), cl.tags or None)
        self.record(o, st, goal, ins.get("pos"))

    def src_hint(self, fr, ins):
        """a stable description of the indexed operand: the field/variable it was loaded from"""
        fn = fr.fn
        target = ins["args"][0].get("n")
        # find defining instruction
        for b in fn["blocks"]:
            for j in b["instrs"]:
                if j.get("name") == target:
                    if j["op"] == "UnOp" and j["args"] and j["args"][0].get("k") == "v":
                        src = j["args"][0]["n"]
                        for b2 in fn["blocks"]:
                            for j2 in b2["instrs"]:
                                if j2.get("name") == src and j2["op"] == "FieldAddr":
                                    return j2["aux"]["field"]
                        return src
                    if j["op"] == "UnOp" and j["args"][0].get("k") == "global":
                        return short(j["args"][0]["n"])
                    if j["op"] == "Field":
                        return j["aux"]["field"]
                    return j["op"]
        return target or "?"

    def after_call(self, st, ev):
        """assumed facts attached to calls by `after` clauses of the function under verification"""
        c = self.cur
        if c is None or not c.get("after") or self.quiet:
            return
        for cl in c["after"]:
            if match_name(cl.extra["pattern"], ev.name):
                ctx = SpecCtx(self, st, st, c["names"], fr_pkg=c["fn"]["pkg"])
                ctx.name_types = c["name_types"]
                ctx.cur_ev = ev
                ctx.pol = -1
                st.assume(to_bool(ctx.eval(cl.ast)))
                self.used_contracts.add("assumed after-call fact [%s] in %s" % (cl.label, c["short"]))

    # ------------------------------------------------------------------ loops with invariants
    def loop_invariants(self, fr, loop):
        c = self.cur
        if c is None or self.quiet or fr.fn is not c.get("fn"):
            return None
        cls = [cl for cl in c["decl"].get("loop") if cl.extra.get("ordinal") == loop["ordinal"]]
        return cls or None

    def local_names(self, fr, st):
        """source-level variable name -> current value (via go/ssa debug references)"""
        out = {}
        fn = fr.fn
        for name, refs in (fn.get("locals") or {}).items():
            val = None
            for r in refs:
                if r.startswith("&"):
                    v = fr.env.get(r[1:])
                    if isinstance(v, PtrV):
                        try:
                            val = st.load(v)
                        except Exception:
                            pass
                elif r in fr.env:
                    val = fr.env[r]
            if val is not None:
                out[name] = val
        return out

    def eval_loop_clause(self, fr, st, cl, extra_names=None):
        c = self.cur
        names = self.local_names(fr, st)
        names.update(c["names"])          # parameters win over same-named selector identifiers
        if extra_names:
            names.update(extra_names)
        entry = c["entry"]
        for h in reversed(st.held):
            if h[2] is not None:
                entry = h[2]          # inside a critical section `old` is the state when the lock was taken
                break
        ctx = SpecCtx(self, st, entry, names, fr_pkg=fr.fn["pkg"])
        ctx.name_types = dict(c["name_types"])
        ctx.loop_frame = fr
        ctx.loop_head = fr.blk
        return to_bool(ctx.eval(cl.ast))

    def cut_loop(self, fr, st, loop, clauses):
        head = fr.blk
        body = loop["body"]
        invs = [cl for cl in clauses if cl.extra["what"] == "invariant"]
        blk = fr.fn["blocks"][head]
        from_inside = fr.prev in body
        phis = [ins for ins in blk["instrs"] if ins["op"] == "Phi"]
        if from_inside:
            # back edge: evaluate phis with the back-edge values, check the invariant, end the path
            idx = blk["preds"].index(fr.prev)
            newv = {ins["name"]: self.operand(fr, st, ins["args"][idx]) for ins in phis}
            fr.env.update(newv)
            # per-iteration effect clauses: evaluated over the trace entries of this iteration only
            for cl in [c for c in clauses if c.extra["what"] == "step"]:
                o = self.obl("loop-iteration", "%d:%s" % (loop["ordinal"], cl.label or "step"), cl.tags)
                cutidx = max([i for i, e in enumerate(st.trace) if e.kind == "loopcut"] or [-1])
                full = st.trace
                st.trace = full[cutidx + 1:]
                try:
                    goal = self.eval_loop_clause(fr, st, cl)
                except (SpecError, Unsupported) as e:
                    o.instances += 1
                    o.unknown.append({"reason": "spec error: %s" % e})
                    st.trace = full
                    continue
                st.trace = full
                self.record(o, st, goal, blk["instrs"][0].get("pos") if blk["instrs"] else None)
            for cl in invs:
                o = self.obl("loop-step", "%d:%s" % (loop["ordinal"], cl.label or "inv"), cl.tags)
                try:
                    goal = self.eval_loop_clause(fr, st, cl)
                except (SpecError, Unsupported) as e:
                    o.instances += 1
                    o.unknown.append({"reason": "spec error: %s" % e})
                    continue
                self.record(o, st, goal, blk["instrs"][0].get("pos") if blk["instrs"] else None)
            if fr.depth == 0:
                cur = self.loop_may.get(loop["ordinal"], (frozenset(), frozenset()))
                self.loop_may[loop["ordinal"]] = (cur[0] | (st.ghost.get("acquired") or frozenset()), cur[1] | (st.ghost.get("eg_joined") or frozenset()))
            return [Outcome("loopend", st)]
        # first arrival: establish, havoc, assume
        idx = blk["preds"].index(fr.prev)
        entry_vals = {ins["name"]: self.operand(fr, st, ins["args"][idx]) for ins in phis}
        fr.env.update(entry_vals)
        for cl in invs:
            o = self.obl("loop-init", "%d:%s" % (loop["ordinal"], cl.label or "inv"), cl.tags)
            try:
                goal = self.eval_loop_clause(fr, st, cl)
            except (SpecError, Unsupported) as e:
                o.instances += 1
                o.unknown.append({"reason": "spec error: %s" % e})
                continue
            self.record(o, st, goal, None)
        # map ranges advanced inside the loop: the set of keys produced so far becomes an arbitrary set
        for b in body:
            for ins in fr.fn["blocks"][b]["instrs"]:
                if ins["op"] == "Next" and ins["args"][0]["k"] == "v":
                    r = fr.env.get(ins["args"][0]["n"])
                    if isinstance(r, OpaqueV) and isinstance(r.data, dict):
                        vk = ("visited", r.data["id"])
                        had = vk in st.ghost
                        if not had:
                            st.ghost[vk] = (None, [])      # nothing visited before the loop: checked by loop-init
                        fr.env["$range_pending"] = vk
        # havoc loop-carried SSA values
        for ins in phis:
            fr.env[ins["name"]] = st.fresh(ins["type"], "loop_" + ins["name"])
        # havoc the symbolic call counters of everything that may be called inside the loop, and library ghost counters
        callees = set()
        for b in body:
            for ins in fr.fn["blocks"][b]["instrs"]:
                if ins["op"] in ("Call", "Go", "Defer"):
                    callees.add(ins["aux"].get("callee") or "dyn")
        for nm in callees:
            k = ("ncalls", nm)
            c = z3.Const(fresh_name("ncalls"), z3.IntSort())
            base = st.ghost.get(k, z3.IntVal(0))
            st.assume(c >= base)
            st.ghost[k] = c
        for k in list(st.ghost):
            if isinstance(k, tuple) and k[0] == "backoff":
                c = z3.Const(fresh_name("attempt"), z3.IntSort())
                st.assume(c >= st.ghost[k])
                st.ghost[k] = c
        st.trace = list(st.trace) + [Ev("<loop %d: earlier iterations>" % loop["ordinal"], [], [], None, "loopcut")]
        # havoc local cells stored to inside the loop, and the declared targets
        for b in body:
            for ins in fr.fn["blocks"][b]["instrs"]:
                if ins["op"] == "Store" and ins["args"][0]["k"] == "v":
                    p = fr.env.get(ins["args"][0]["n"])
                    if isinstance(p, PtrV) and isinstance(p.cell, int):
                        try:
                            cur = st.load(p)
                            nw = len(st.writes)
                            st.store(p, self.havoc_like(st, cur))
                            del st.writes[nw:]
                        except Unsupported:
                            pass
        for cl in clauses:
            if cl.extra["what"] == "modifies":
                names = dict(self.cur["names"])
                names.update(self.local_names(fr, st))
                ctx = SpecCtx(self, st, self.cur["entry"], names, fr_pkg=fr.fn["pkg"])
                for t in cl.extra["targets"]:
                    a = parse_expr(t)
                    v = None
                    try:
                        v = ctx.eval_addr(a)
                    except (SpecError, Unsupported):
                        v = ctx.eval(a)
                    if isinstance(v, PtrV):
                        cur = st.load(v)
                        st.store(v, self.havoc_like(st, cur))
                    elif isinstance(v, MapV):
                        c0 = st.map_contents(v)
                        st.heap[v.cell] = MapC(z3.Const(fresh_name("mapbase"), z3.IntSort()), (), c0.kt, c0.vt)
                        st.writes.append((v.cell, ()))
        vk = fr.env.pop("$range_pending", None)
        if vk is not None:
            st.ghost[vk] = (fresh_name("vis"), [])
            st.ghost["last_visited"] = vk
        known = self.loop_may_prev.get(loop["ordinal"]) if fr.depth == 0 else None
        if known:
            st.ghost["acquired"] = (st.ghost.get("acquired") or frozenset()) | known[0]
            st.ghost["eg_joined"] = (st.ghost.get("eg_joined") or frozenset()) | known[1]
        for cl in invs:
            try:
                st.assume(self.eval_loop_clause(fr, st, cl))
            except (SpecError, Unsupported):
                pass
        fr.ip = len(phis)
        fr.visits[head] = -10 ** 6
        return None

    def on_atomic(self, fr, st, p, ins, what):
        """lost-update check on cells handled with sync/atomic: a Store that follows a Load of the same cell in one activation is a
        read-modify-write that is not atomic (another goroutine's update in between is overwritten); CompareAndSwap / Add are"""
        if self.cur is None or self.quiet or not isinstance(p, PtrV):
            return
        key = ("atomic_loaded", str(p.cell), tuple(p.path))
        wkey = ("atomic_updated", str(p.cell), tuple(p.path))
        if what in ("add", "store"):
            st.ghost[wkey] = True
        if what == "load":
            # the mirror image: a Load after this activation's own Add / Store does not read back "its" value - another goroutine's update
            # may have landed in between (two callers of a counter then see the same number); the value to use is the one Add returned
            o = self.obl("ownership", "atomic-rmw", self.own_props())
            o.instances += 1
            if st.ghost.get(wkey):
                o.failed.append({"pos": ins.get("pos"), "reason": "atomic Load of a cell this activation updated before (Add / Store): the value read back is not the one this "
                                                                  "activation produced when another goroutine updates the cell in between (use the result of Add)"})
            else:
                o.proved += 1
            st.ghost[key] = True
        elif what == "store":
            o = self.obl("ownership", "atomic-rmw", self.own_props())
            o.instances += 1
            if st.ghost.get(key):
                o.failed.append({"pos": ins.get("pos"), "reason": "atomic Store to a cell this activation loaded before: the read-modify-write is not atomic, a concurrent update between the Load and the Store is lost (use CompareAndSwap or Add)"})
            else:
                o.proved += 1

    def on_block(self, fr, st, ins, chans, blocking):
        """blocking points of a function declared `cancellable <ctx>`: one case must wait on ctx.Done()"""
        c = self.cur
        if c is None or self.quiet or not blocking:
            return
        pr = c["decl"].get("prompt") if c.get("decl") is not None else None
        if pr:
            # `prompt`: every wait of this function (and of what it inlines) has a receive case on a channel that is
            # non-nil and promised (a value is there, or is delivered by a goroutine / timer without further input)
            o = self.obl("blocking", "prompt", pr[0].tags or None)
            o.instances += 1
            if any(d == "sleep" or (d == "recv" and self.is_promised(st, ch)) for (d, ch) in chans):
                o.proved += 1
            else:
                o.failed.append({"pos": ins.get("pos"), "model": first_model(st), "reason": "waits on %s: no case is a receive from a channel that is non-nil and has a value promised" % (
                    ", ".join("%s %s" % (d, ("nil channel" if (isinstance(ch, ChanV) and ch.nil is True) else str(getattr(ch, "ref", ch)))) for (d, ch) in chans))})
        if fr.fn is not c.get("fn"):
            return
        cl = c["decl"].get("cancellable")
        if not cl:
            return
        ctxname = cl[0].text.strip()
        ctxv = c["names"].get(ctxname)
        if not isinstance(ctxv, IfaceV):
            return
        done = uf("ctx.Done", [Ref], Ref)(ctxv.ref)
        o = self.obl("blocking", "waits-on-%s.Done" % ctxname, cl[0].tags or None)
        conds = [ch.ref == done for (d, ch) in chans if d == "recv" and isinstance(ch, ChanV)]
        goal = z3.Or(*conds) if conds else z3.BoolVal(False)
        self.record(o, st, goal, ins.get("pos"))

    def ghost_value(self, ctx, n):
        return None

    def ghost_call(self, ctx, n, args):
        if self.fsm is not None:
            return self.fsm.spec_call(ctx, n, args)
        return None

    # ------------------------------------------------------------------ per function verification
    def verify_function(self, decl, only_props=None):
        """may-effects of loop bodies cut by invariants (lock classes acquired, goroutines to be joined) are learnt in a first
        pass and assumed to have happened "in earlier iterations" in a second one"""
        self.loop_may_prev = {}
        before = set(self.obls)
        info = self._verify_function_once(decl, only_props)
        for _ in range(2):
            may = self.loop_may
            if not may or may == self.loop_may_prev:
                break
            for k in [k for k in self.obls if k not in before]:
                del self.obls[k]
            self.loop_may_prev = may
            info = self._verify_function_once(decl, only_props)
        return info

    loop_may = {}
    loop_may_prev = {}

    def _verify_function_once(self, decl, only_props=None):
        self.loop_may = {}
        ir = self.ir
        full = decl.attrs["full"]
        fn = ir.funcs.get(full)
        if fn is None:
            raise SpecError("no body for %s" % decl.name)
        props = set(decl.tags)
        for cl in decl.clauses:
            props |= set(cl.tags or [])
        self.cur = {"short": fn["short"], "props": props, "safety_props": set(decl.tags) or props, "decl": decl, "fn": fn}
        st = State(self)
        args = []
        names = {}
        for i, p in enumerate(fn["params"]):
            v = st.from_uf(p["type"], p["name"], [])
            args.append(v)
            names[p["name"]] = v
        fvs = []
        for p in fn.get("freevars") or []:
            v = st.from_uf(p["type"], "fv." + p["name"], [])
            if isinstance(v, PtrV):
                st.assume(z3.Not(to_bool(v.nil)))   # a captured variable always exists
            fvs.append(v)
            names[p["name"]] = v
        if fn.get("recv") and isinstance(args[0], PtrV):
            st.assume(z3.Not(to_bool(args[0].nil)))
        name_types = {p["name"]: p["type"] for p in fn["params"] + (fn.get("freevars") or [])}
        self.cur["names"], self.cur["name_types"], self.cur["after"] = names, name_types, decl.get("after")
        ctx = SpecCtx(self, st, st, names, fr_pkg=fn["pkg"])
        ctx.name_types = name_types
        for cl in decl.get("requires") + decl.get("assume"):
            st.assume(to_bool(ctx.eval(cl.ast)))
        self.enter_locked(None, st, decl, full, fvs + args)
        entry_held = [h[0] for h in st.held]
        o = self.obl("requires-sat", "vacuity")
        o.instances += 1
        if st.feasible():
            o.proved += 1
        else:
            o.failed.append({"reason": "preconditions are contradictory"})
        entry = st.clone()
        self.cur["entry"] = entry
        t0 = time.time()
        outs = self.run(fn, args, st, depth=0, freevars=fvs, top=True)
        rets = [x for x in outs if x.kind == "ret"]
        panics = [x for x in outs if x.kind == "panic"]
        cuts = [x for x in outs if x.kind == "cut"]
        self.stats["paths"] += len(outs)
        info = {"paths": len(rets), "panics": len(panics), "cuts": len(cuts), "secs": None}
        oc = self.obl("cover", "returns")
        oc.instances += 1
        if rets:
            oc.proved += 1
        else:
            oc.failed.append({"reason": "no returning path"})
        refuses = decl.get("refuses")
        if panics and refuses:
            # `refuses <cond>`: a deliberate panic is this function's way of refusing an input; every panicking path must be one on which the
            # stated condition (over the entry state) holds - a panic for any other reason is still a violation
            o = self.obl("safety", "panic", refuses[0].tags or self.cur["safety_props"])
            for p in panics:
                cp = SpecCtx(self, p.st, entry, dict(names), fr_pkg=fn["pkg"])
                cp.name_types = dict(name_types)
                try:
                    goal = to_bool(cp.eval(("old", refuses[0].ast)))
                except (SpecError, Unsupported) as e:
                    o.instances += 1
                    o.unknown.append({"pos": p.info, "reason": "spec error: %s" % e})
                    continue
                self.record(o, p.st, goal, p.info)
        elif panics:
            o = self.obl("safety", "panic", self.cur["safety_props"])
            for p in panics:
                o.instances += 1
                o.failed.append({"pos": p.info, "model": first_model(p.st), "trace": [repr(e) for e in p.st.trace][-12:],
                                 "smt2": None, "reason": "explicit panic reachable"})
        if not panics:
            o = self.obl("safety", "panic", self.cur["safety_props"])
            o.instances += 1
            o.proved += 1
        rtypes = [r["type"] for r in fn["results"]]
        mods = decl.get("modifies")
        self.lock_effect_obligations(decl, fn, rets, entry_held)
        if decl.get("constructor") and not self.quiet:
            self.constructor_obligations(decl, fn, rets)
        if decl.get("promises") and not self.quiet:
            for out in rets:
                rn0 = dict(names)
                self.bind_results(rn0, fn, out.results, rtypes)
                try:
                    pl = self.promises_of(out.st, decl, full, [], extra_names=rn0)
                except (SpecError, Unsupported) as e:
                    pl = []
                    o = self.obl("blocking", "promises", decl.get("promises")[0].tags or None)
                    o.instances += 1
                    o.unknown.append({"pos": out.info, "reason": "spec error: %s" % e})
                for (pcl, pch) in pl:
                    o = self.obl("blocking", "promises:%s" % pcl.text.strip(), pcl.tags or None)
                    o.instances += 1
                    nsend = sum(1 for e in out.st.trace if e.kind == "chan" and e.name in ("send", "select-send") and e.args
                                and isinstance(e.args[0], ChanV) and self.chan_key(e.args[0]) == self.chan_key(pch))
                    if self.is_promised(out.st, pch) or nsend == 1:
                        o.proved += 1      # promised, or this very activation performed the one send (room in the buffer is checked where the channel is made: at the go statement)
                    else:
                        o.failed.append({"pos": out.info, "reason": "returns without a value sent, or a goroutine / timer promised to send one, on %s" % pcl.text.strip()})
        for out in rets:
            s2 = out.st
            rn = dict(names)
            self.bind_results(rn, fn, out.results, rtypes)
            c2 = SpecCtx(self, s2, entry, rn, fr_pkg=fn["pkg"])
            c2.name_types = dict(name_types)
            for i, rt in enumerate(rtypes):
                c2.name_types["result%d" % i] = rt
            if len(rtypes) >= 1:
                c2.name_types["result"] = rtypes[0]
            for cl in decl.get("ensures"):
                o = self.obl("ensures", cl.label or ("line%d" % cl.line), cl.tags)
                try:
                    goal = to_bool(c2.eval(cl.ast))
                except (SpecError, Unsupported) as e:
                    o.instances += 1
                    o.unknown.append({"pos": out.info, "reason": "spec error: %s" % e})
                    continue
                nf = len(o.failed)
                self.record(o, s2, goal, out.info)
                if len(o.failed) > nf and not cl.extra.get("trace"):
                    try:
                        self.attach_pure_replay(o.failed[-1], decl, fn, args, s2, c2, cl, out)
                    except Exception:
                        pass
                if cl.ast[0] == "bin" and cl.ast[1] == "==>" and not o.covered:
                    try:
                        ante = to_bool(c2.eval(cl.ast[2]))
                        if s2.feasible(ante):
                            o.covered = True
                        elif o.covered is None:
                            o.covered = False
                    except (SpecError, Unsupported):
                        pass
            # data-structure invariants of the receiver are re-established
            if fn.get("recv") and isinstance(args[0], PtrV):
                rt = self.ir.types[self.ir.under(fn["params"][0]["type"])].get("elem")
                d_inv = self.type_invs.get(rt)
                if d_inv is not None and s2.writes:
                    for icl in d_inv.clauses:
                        if icl.kind != "invariant":
                            continue
                        oi = self.obl("inv", icl.label or ("line%d" % icl.line), icl.tags or None)
                        try:
                            ictx = SpecCtx(self, s2, s2, {"self": s2.load(args[0])}, fr_pkg=d_inv.pkg)
                            ictx.token_obj = (args[0], rt)
                            goal = to_bool(ictx.eval(icl.ast))
                        except (SpecError, Unsupported) as e:
                            oi.instances += 1
                            oi.unknown.append({"reason": "spec error: %s" % e})
                            continue
                        self.record(oi, s2, goal, out.info)
            # frame
            if not self.quiet:
                of = self.obl("frame", "writes")
                of.instances += 1
                bad = self.unframed_writes(s2, decl, c2)
                if bad:
                    of.failed.append({"pos": out.info, "reason": "writes outside modifies: %s" % bad})
                else:
                    of.proved += 1
        # cancellable waits
        if "cancellable" in decl.flags or decl.get("cancellable"):
            oc2 = self.obl("blocking", "cancellable", None)
            for out in rets:
                s2 = out.st
                td = s2.ghost.get("took_done")
                if td is None:
                    continue
                oc2.instances += 1
                later = [e for e in s2.trace[td + 1:] if e.kind in ("call", "go")]
                res = out.results[-1] if out.results else None
                ok_err = isinstance(res, IfaceV)
                if later:
                    oc2.failed.append({"pos": out.info, "reason": "after the context was cancelled the function still performs: %s" % [repr(e) for e in later][:4]})
                elif not ok_err:
                    oc2.failed.append({"pos": out.info, "reason": "no error result"})
                else:
                    oc2.instances -= 1
                    self.record(oc2, s2, res.ref != NIL, out.info)
            if oc2.instances == 0:
                oc2.instances = 1
                oc2.proved = 1
        info["secs"] = time.time() - t0
        self.cur = None
        return info

    def attach_pure_replay(self, fail, decl, fn, args, st, ctx, cl, out):
        """for a failed `ensures result == E` of a pure method on a struct with scalar fields: the receiver as a Go literal, the
        value the real code is predicted to return (the model's result) and the value the contract demands (E under the model)"""
        m = getattr(self, "_last_model", None)
        a = cl.ast
        if m is None or not (a[0] == "bin" and a[1] == "==" and a[2] == ("id", "result")) or len(fn["params"]) != 1 or not fn.get("recv"):
            return
        recv = args[0]
        sv = st.load(recv) if isinstance(recv, PtrV) else recv
        if not isinstance(sv, StructV):
            return
        rt = fn["params"][0]["type"]
        T = self.ir.types[self.ir.under(rt)].get("elem") if isinstance(recv, PtrV) else rt
        imports = {}
        strs = {}

        def lit_fields(val, typ, depth=0):
            out = []
            foreign = typ.rpartition(".")[0] != fn["pkg"]
            for f in self.ir.fields(typ):
                if foreign and not f["name"][:1].isupper():
                    continue        # unexported field of another package: cannot be set from the test
                v = val.f.get(f["name"]) if isinstance(val, StructV) else None
                if is_z3(v) and v.sort() == z3.IntSort():
                    out.append("%s: %s" % (f["name"], m.eval(v, model_completion=True)))
                elif is_z3(v) and v.sort() == z3.BoolSort():
                    out.append("%s: %s" % (f["name"], "true" if z3.is_true(m.eval(v, model_completion=True)) else "false"))
                elif is_z3(v) and v.sort() == Str and self.ir.under(f["type"]) == "string":
                    key = str(m.eval(v, model_completion=True))
                    out.append('%s: "%s"' % (f["name"], strs.setdefault(key, "s%d" % len(strs))))
                elif isinstance(v, StructV) and depth < 2 and self.ir.types.get(f["type"], {}).get("kind") == "named":
                    ft = f["type"]
                    path, _, tn = ft.rpartition(".")
                    inner = lit_fields(v, ft, depth + 1)
                    if inner:
                        if path == fn["pkg"]:
                            qual = tn
                        else:
                            alias = "p%d" % len(imports) if path not in imports else imports[path]
                            imports[path] = alias
                            qual = alias + "." + tn
                        out.append("%s: %s{%s}" % (f["name"], qual, ", ".join(inner)))
                # other kinds (nodes, pointers, slices) keep their zero value: the replay goes only as far as scalars decide it
            return out
        lits = lit_fields(sv, T)
        demanded = m.eval(to_bool(ctx.eval(a[3])) if fn["results"][0]["type"] == "bool" else to_int(ctx.eval(a[3])), model_completion=True)
        got = out.results[0]
        got = m.eval(to_bool(got) if fn["results"][0]["type"] == "bool" else to_int(got), model_completion=True)
        fmt = lambda x: ("true" if z3.is_true(x) else "false") if z3.is_bool(x) else str(x)
        fail["pure_replay"] = {"type": T, "ptr": isinstance(recv, PtrV), "method": fn["name"].rsplit(".", 1)[-1], "fields": lits,
                               "demanded": fmt(demanded), "predicted": fmt(got), "rtype": fn["results"][0]["type"],
                               "pkg": fn["pkg"], "file": fn.get("file"), "imports": imports}

    def constructor_obligations(self, decl, fn, rets):
        """`constructor`: the returned object satisfies everything its type declaration lets every other function assume at entry:
        the `nonnil` fields, the data-structure invariants and (the object not being shared yet) the lock invariants"""
        tags = decl.get("constructor")[0].tags or None
        for out in rets:
            if not out.results:
                continue
            p = out.results[0]
            rt_override = None
            if isinstance(p, IfaceV) and p.dyn is not None and isinstance(p.dyn[1], PtrV):
                rt_override = self.ir.types.get(self.ir.under(p.dyn[0]), {}).get("elem")
                p = p.dyn[1]
            if not isinstance(p, PtrV):
                continue
            st = out.st
            if len(out.results) > 1:
                if not z3.is_false(z3.simplify(to_bool(p.nil))) and st.feasible(to_bool(p.nil)):
                    continue        # (nil, err) result
            else:
                o = self.obl("valid", "result-nonnil", tags)
                self.record(o, st, z3.Not(to_bool(p.nil)), out.info)
            rt = rt_override or self.ir.types.get(self.ir.under(fn["results"][0]["type"]), {}).get("elem")
            td = self.type_invs.get(rt)
            if td is None:
                continue
            sv = st.load(p)
            for cl in td.clauses:
                if cl.kind == "nonnil":
                    for fld in cl.extra["fields"]:
                        x = sv.f.get(fld) if isinstance(sv, StructV) else None
                        o = self.obl("valid", "%s.%s-nonnil" % (td.name, fld), tags)
                        if isinstance(x, IfaceV):
                            self.record(o, st, x.ref != NIL, out.info)
                        elif isinstance(x, (PtrV, MapV, ChanV)):
                            self.record(o, st, z3.Not(to_bool(x.nil)), out.info)
                        elif isinstance(x, FuncV):
                            self.record(o, st, (x.ref != NIL) if x.ref is not None else z3.BoolVal(True), out.info)
                        else:
                            o.instances += 1
                            o.unknown.append({"reason": "field %s not found" % fld})
                elif cl.kind == "invariant" and cl.ast is not None:
                    o = self.obl("valid", "%s[%s]" % (td.name, cl.label or "inv"), tags)
                    try:
                        ictx = SpecCtx(self, st, st, {"self": p}, fr_pkg=td.pkg)
                        ictx.token_obj = (p, rt)
                        goal = to_bool(ictx.eval(cl.ast))
                    except (SpecError, Unsupported) as e:
                        o.instances += 1
                        o.unknown.append({"reason": "spec error: %s" % e})
                        continue
                    self.record(o, st, goal, out.info)

    def lock_effect_obligations(self, decl, fn, rets, entry_held):
        """every lock class acquired on some path is declared (`acquires`); no lock is still held on return;
        the declared effect refines the effect declared on every interface method this method implements"""
        if self.quiet:
            return
        declared = decl.attrs.get("acq") or set()
        oa = self.obl("lock", "acquires-declared", self.lock_props())
        orl = self.obl("lock", "all-released", self.lock_props())
        extra_all, where = set(), None
        for out in rets:
            acq = out.st.ghost.get("acquired") or frozenset()
            extra = set(c for c in acq if c not in declared)
            if extra - extra_all:
                where = out.info
            extra_all |= extra
            orl.instances += 1
            left = [h for h in out.st.held if h[0] not in entry_held]
            if left:
                orl.failed.append({"pos": out.info, "reason": "returns with %s still held" % ", ".join(str(h[4]) for h in left)})
            else:
                orl.proved += 1
        if rets:
            oa.instances += 1
            if extra_all:
                oa.failed.append({"pos": where, "undeclared": sorted(extra_all),
                                  "reason": "acquires %s, not listed in the function's `acquires` clause" % ", ".join(sorted(extra_all))})
            else:
                oa.proved += 1
        if not rets:
            oa.instances += 1; oa.proved += 1
            orl.instances += 1; orl.proved += 1
        for tname in decl.attrs.get("refines") or []:
            tdecl = self.by_func.get(tname) or self.contract_for(tname)
            o = self.obl("lock", "refines:%s" % tname, self.lock_props())
            o.instances += 1
            if tdecl is None or "acq" not in tdecl.attrs:
                o.failed.append({"reason": "no contract with an `acquires` clause named %s" % tname})
            else:
                extra = sorted(declared - tdecl.attrs["acq"])
                if extra:
                    o.failed.append({"reason": "acquires %s, which the contract of %s does not allow" % (", ".join(extra), tname)})
                else:
                    o.proved += 1
        # refinement of interface effects
        if fn.get("recv"):
            import re as _re
            m = _re.match(r"^\((\*?)(.*)\)\.(\w+)$", fn["name"])
            if m:
                T = m.group(2)
                for full, idecl in self.by_func.items():
                    m2 = _re.match(r"^\((.*)\)\.(\w+)$", full)
                    if not m2 or m2.group(2) != m.group(3) or "acq" not in idecl.attrs or idecl is decl:
                        continue
                    it = m2.group(1)
                    if it not in self.ir.types:
                        try:
                            it = self.resolve_type_name(it, idecl.pkg)
                        except SpecError:
                            continue
                    if not self.ir.is_iface(it):
                        continue
                    impl = self.ir.types.get(T, {}).get("implements") or []
                    if it not in impl and "*" + it not in impl:
                        continue
                    o = self.obl("lock", "refines:%s.%s" % (short(it).rsplit("/", 1)[-1], m.group(3)), self.lock_props())
                    o.instances += 1
                    extra = sorted(declared - idecl.attrs["acq"])
                    if extra:
                        o.failed.append({"reason": "acquires %s, which the contract of (%s).%s does not allow" % (", ".join(extra), short(it), m.group(3))})
                    else:
                        o.proved += 1

    def unframed_writes(self, st, decl, ctx):
        allowed = []
        for cl in decl.get("modifies"):
            for t in cl.extra["targets"]:
                def cellof(p):
                    return p.cell if not isinstance(p.cell, str) else st.symcells.get(p.cell, p.cell)
                for old in (False, True):
                    ctx.in_old = old
                    try:
                        v = ctx.eval(t)
                        if isinstance(v, MapV):
                            allowed.append((v.cell, ()))
                        elif isinstance(v, PtrV) and v.cell is not None:
                            allowed.append((cellof(v), tuple(v.path)))
                    except (SpecError, Unsupported, KeyError):
                        pass
                    try:
                        p = ctx.eval_addr(t)
                        if isinstance(p, PtrV):
                            allowed.append((cellof(p), tuple(p.path)))
                        elif isinstance(p, MapV):
                            allowed.append((p.cell, ()))
                    except (SpecError, Unsupported, KeyError):
                        pass
                ctx.in_old = False
        bad = []
        for (cell, path) in st.writes:
            ok = False
            for (ac, ap) in allowed:
                if ac == cell and tuple(path[:len(ap)]) == ap:
                    ok = True
                # objects stored in an allowed map (values that are pointers) belong to that map's footprint
                if isinstance(ac, str) and ac.startswith("m:") and isinstance(cell, tuple) and len(cell) == 2 and \
                        isinstance(cell[1], str) and cell[1].startswith("mapval:") and ("mapbase!" + ac) in cell[1]:
                    ok = True
            if not ok:
                bad.append("%s%s" % (cell, "".join("." + str(x) for x in path)))
        return sorted(set(bad))


def _coverage_method():
    def verify_accessor_coverage(self, decl):
        """coverage [label] {C20}: accessors -- the ownership and lock obligations are only as complete as the set of functions
        under contract: every function of the module (outside its test helpers) that touches a guarded or atomic field of an object
        it did not allocate itself, takes one of the declared locks, or implements an interface method whose lock effect is
        declared, must be a function under contract (and so is verified with those obligations on)"""
        ir = self.ir
        self.cur = {"short": "module.locks", "props": set(decl.tags), "safety_props": set(decl.tags), "decl": decl, "fn": None}
        under = set()
        for d in self.decls:
            if d.kind == "func" and not ("assumed" in d.flags or "opaque" in d.flags or ("effectfree" in d.flags and not d.tags)):
                under.add(d.attrs.get("full"))
        guarded = dict(self.guard_of)
        for k, c in self.atomic_fields.items():
            guarded[k] = "atomic"
        lockfields = set((T, lk) for T, m in self.lock_decls.items() for lk in m)
        per = {}
        for name, fn in ir.funcs.items():
            if any(x in fn["pkg"] for x in self.TESTISH) or name.endswith(".init") or ".init#" in name:
                continue
            allocs = set()
            for b in fn["blocks"]:
                for i in b["instrs"]:
                    if i["op"] == "Alloc":
                        allocs.add(i.get("name"))
                    if i["op"] in ("FieldAddr", "Field"):
                        aux = i.get("aux") or {}
                        k = (aux.get("struct"), aux.get("field"))
                        if (k in guarded or k in lockfields) and i["args"][0].get("n") not in allocs:
                            per.setdefault(k, set()).add(name)
        for k in sorted(set(guarded) | lockfields, key=str):
            o = self.obl("coverage", "accessors:%s.%s" % (short(k[0]).rsplit("/", 1)[-1], k[1]), decl.tags)
            o.instances += 1
            missing = sorted(short(f) for f in per.get(k, ()) if f not in under)
            if missing:
                o.failed.append({"missing": missing, "reason": "touched by %s, which %s not under contract" % (", ".join(missing), "is" if len(missing) == 1 else "are")})
            else:
                o.proved += 1
        # implementations of interface methods with a declared lock effect
        import re as _re
        for full, idecl in self.by_func.items():
            m2 = _re.match(r"^\((.*)\)\.(\w+)$", full)
            if not m2 or "acq" not in idecl.attrs or idecl.kind != "extern":
                continue
            it = m2.group(1)
            if it not in ir.types:
                try:
                    it = self.resolve_type_name(it, idecl.pkg)
                except SpecError:
                    continue
            if not ir.is_iface(it):
                continue
            o = self.obl("coverage", "implementations:%s.%s" % (short(it).rsplit("/", 1)[-1], m2.group(2)), decl.tags)
            o.instances += 1
            missing = sorted(short(f) for f in self.implementors(it, m2.group(2)) if f not in under)
            if missing:
                o.failed.append({"missing": missing, "reason": "implemented by %s, not under contract" % ", ".join(missing)})
            else:
                o.proved += 1
        self.cur = None

    def verify_coverage(self, decl):
        """coverage [label] {Cxx}: T1, T2 -- structural obligation on the generated cbor-gen codecs: every declared field is
        written under its own key, the map header counts the fields, and the decoder has a case that stores into it"""
        ir = self.ir
        cl = decl.clauses[0]
        if cl.text.strip() == "accessors":
            return self.verify_accessor_coverage(decl)
        self.cur = {"short": short(decl.pkg) + ".codec", "props": set(decl.tags), "safety_props": set(decl.tags), "decl": decl, "fn": None}
        for tn in [x.strip() for x in cl.text.split(",") if x.strip()]:
            T = self.resolve_type_name(tn, decl.pkg)
            fields = [f["name"] for f in ir.struct_decls.get(T, [])]
            o = self.obl("coverage", "%s:%s" % (decl.name, tn), decl.tags)
            if not fields:
                o.instances += 1
                o.failed.append({"reason": "no struct declaration found for %s" % tn})
                continue
            fm = ir.funcs.get("(*%s).MarshalCBOR" % T)
            fu = ir.funcs.get("(*%s).UnmarshalCBOR" % T)
            if fm is None or fu is None:
                o.instances += 1
                o.failed.append({"reason": "generated MarshalCBOR/UnmarshalCBOR for %s not found" % tn})
                continue

            def scan(fn):
                faddr, strs, consts_stored = set(), set(), []
                for b in fn["blocks"]:
                    for ins in b["instrs"]:
                        if ins["op"] == "FieldAddr" and ins["aux"].get("struct") == T:
                            faddr.add(ins["aux"]["field"])
                        for a in ins["args"]:
                            if a.get("k") == "const" and a.get("n") == "string":
                                strs.add(a["v"])
                        if ins["op"] == "Store" and ins["args"][1].get("k") == "const" and ins["args"][1].get("n") == "int":
                            consts_stored.append(int(ins["args"][1]["v"]))
                return faddr, strs, consts_stored
            ma, ms, mc = scan(fm)
            ua, us, _ = scan(fu)
            n = len(fields)

            def limits(fn):
                """integer constants >= 1024 that a codec function compares against or passes to a reader: its length limits"""
                out = set()
                for b in fn["blocks"]:
                    for ins in b["instrs"]:
                        if ins["op"] in ("BinOp", "Call", "If"):
                            for a in ins["args"]:
                                if a.get("k") == "const" and a.get("n") == "int":
                                    try:
                                        v = int(a["v"])
                                    except (TypeError, ValueError):
                                        continue
                                    if v >= 1024:
                                        out.add(v)
                return out
            lm, lu = limits(fm), limits(fu)
            o.instances += 1
            if lm == lu:
                o.proved += 1
            else:
                o.failed.append({"reason": "length limits differ between the codec halves of %s: MarshalCBOR enforces %s, UnmarshalCBOR accepts %s "
                                           "(a record the encoder writes must be one the decoder reads back)" % (tn, sorted(lm), sorted(lu)), "field": "<limits>"})
            if not any(f in ms for f in fields):
                # tuple (array) encoding: no keys; every field is written and read back in order, and the decoder checks the arity
                cmp_consts = set()
                for b in fu["blocks"]:
                    for ins in b["instrs"]:
                        if ins["op"] == "BinOp":
                            for a in ins["args"]:
                                if a.get("k") == "const" and a.get("n") == "int":
                                    try:
                                        cmp_consts.add(int(a["v"]))
                                    except (TypeError, ValueError):
                                        pass
                for f in fields:
                    o.instances += 1
                    problems = []
                    if f not in ma:
                        problems.append("MarshalCBOR never reads field %s" % f)
                    if f not in ua:
                        problems.append("UnmarshalCBOR never stores into field %s" % f)
                    if problems:
                        o.failed.append({"reason": "; ".join(problems), "field": f})
                    else:
                        o.proved += 1
                o.instances += 1
                if n in cmp_consts:
                    o.proved += 1
                else:
                    o.failed.append({"reason": "UnmarshalCBOR of %s does not check for %d fields" % (tn, n)})
                o.solver = "structural (SSA scan)"
                continue
            header_ok = (n < 24 and (0xa0 + n) in mc) or (24 <= n < 256 and any(mc[i] == 184 and mc[i + 1] == n for i in range(len(mc) - 1)))
            for f in fields:
                o.instances += 1
                problems = []
                if f not in ma:
                    problems.append("MarshalCBOR never reads field %s" % f)
                if f not in ms:
                    problems.append("MarshalCBOR never writes key %r" % f)
                if f not in us:
                    problems.append("UnmarshalCBOR has no case %r" % f)
                if f not in ua:
                    problems.append("UnmarshalCBOR never stores into field %s" % f)
                if problems:
                    o.failed.append({"reason": "; ".join(problems), "field": f})
                else:
                    o.proved += 1
            o.instances += 1
            if header_ok:
                o.proved += 1
            else:
                o.failed.append({"reason": "map header of %s does not announce %d fields" % (tn, n)})
            extra = [k for k in ma if k not in fields]
            o.solver = "structural (SSA scan)"
        self.cur = None
    return verify_coverage, verify_accessor_coverage


Engine.verify_coverage = None


def _lemma_methods():
    import re

    def verify_lemma(self, decl):
        """lemma [label] {Cxx}: [foreach E in (A, B) ::] forall s State, ... :: body   (FSM layer builtins available)"""
        from .fsm import FSM, STATE_T
        if self.fsm is None:
            self.fsm = FSM(self)
        fsm = self.fsm
        cl = decl.clauses[0]
        text = cl.text.strip()
        self.cur = {"short": short(decl.pkg) + ".fsm", "props": set(decl.tags), "safety_props": set(decl.tags), "decl": decl, "fn": None}
        o = self.obl("lemma", decl.name, decl.tags)
        if fsm.problems:
            o.instances += 1
            o.failed.append({"reason": "FSM extraction: " + "; ".join(fsm.problems)})
            self.cur = None
            return
        items = [dict()]
        byname = {v: k for k, v in fsm.event_names.items()}
        bystatus = {v: k for k, v in fsm.status_names.items()}
        body = text
        while True:
            m = re.match(r"^foreach\s+(\w+)\s+in\s+(statuses)?\(([^)]*)\)\s*(?:except\s*\(([^)]*)\))?\s*::\s*(.*)$", body, re.S)
            if not m:
                break
            var, is_status, lst, exc, body = m.group(1), m.group(2), m.group(3).strip(), m.group(4), m.group(5)
            if is_status:
                vals = []
                for n in [x.strip() for x in lst.split(",") if x.strip()]:
                    if n not in bystatus:
                        o.instances += 1
                        o.failed.append({"reason": "unknown status %s" % n})
                        continue
                    vals.append(("status", n, bystatus[n]))
            else:
                if lst == "*":
                    codes = sorted(fsm.events)
                else:
                    codes = []
                    for n in [x.strip() for x in lst.split(",") if x.strip()]:
                        if n not in byname or byname[n] not in fsm.events:
                            o.instances += 1
                            o.failed.append({"reason": "event %s has no builder in ChannelEvents" % n})
                            continue
                        codes.append(byname[n])
                if exc:
                    ex = [byname[x.strip()] for x in exc.split(",") if x.strip()]
                    codes = [c for c in codes if c not in ex]
                vals = [("event", fsm.event_names.get(c), c) for c in codes]
            items = [dict(it, **{var: v}) for it in items for v in vals]
        ast = parse_expr(body)
        binders = []
        while ast[0] == "forall":
            binders += ast[1]
            ast = ast[2]
        for binding in items:
            st = State(self)
            for k, v in fsm.st0.heap.items():
                st.heap.setdefault(k, v)
            names = {}
            ev_name = st_name = None
            for var, (kind, nm, code) in binding.items():
                names[var] = z3.IntVal(code)
                if kind == "event":
                    ev_name = nm
                else:
                    st_name = nm
            ctx = SpecCtx(self, st, st, names, fr_pkg=MOD + "/channels")
            for (x, T) in binders:
                t = self.spec_type(ctx, T)
                v = st.from_uf(t, x, [])
                ctx.bound[x] = v
                ctx.tag(v, t)
            try:
                goal = to_bool(ctx.eval(ast))
            except (SpecError, Unsupported) as e:
                o.instances += 1
                o.unknown.append({"reason": "spec error: %s" % e, "event": ev_name})
                continue
            n_before = len(o.failed)
            self.record(o, st, goal, None)
            if len(o.failed) > n_before:
                o.failed[-1]["event"] = ev_name
                md = o.failed[-1].get("model") or {}
                if st_name:
                    o.failed[-1]["status"] = st_name
                elif "s.Status" in md:
                    o.failed[-1]["status"] = fsm.status_names.get(int(md["s.Status"]), md["s.Status"])
        self.cur = None

    def spec_type(self, ctx, T):
        from .fsm import STATE_T
        alias = {"State": STATE_T, "Status": MOD + ".Status", "TypedVoucher": MOD + ".TypedVoucher", "ChannelID": MOD + ".ChannelID",
                 "PeerID": "github.com/libp2p/go-libp2p/core/peer.ID"}
        if T in alias:
            return alias[T]
        if T in ("int", "int64", "uint64", "bool", "string", "error"):
            return T
        return ctx.resolve_type(T)

    return verify_lemma, spec_type


Engine.verify_lemma, Engine.spec_type = None, None


def caller_view(ast):
    """the conjuncts of a postcondition that do not speak about the callee's own trace (what a caller may assume)"""
    out = []

    def conj(a):
        if a[0] == "bin" and a[1] == "&&":
            return conj(a[2]) + conj(a[3])
        return [a]

    for c in conj(ast):
        if not uses_trace(c):
            out.append(c)
        elif c[0] == "bin" and c[1] == "==>" and not uses_trace(c[2]):
            for d in caller_view(c[3]):
                out.append(("bin", "==>", c[2], d))
    return out


def split_top(s):
    out, depth, cur = [], 0, ""
    for ch in s:
        if ch in "([":
            depth += 1
        if ch in ")]":
            depth -= 1
        if ch == "," and depth == 0:
            out.append(cur)
            cur = ""
        else:
            cur += ch
    if cur.strip():
        out.append(cur)
    return out


def what_of(ins, what):
    if ins["op"] == "FieldAddr":
        return "." + ins["aux"]["field"]
    return what


def model_to_dict(m):
    if m is None:
        return None
    out = {}
    for d in m.decls():
        if d.arity() == 0:
            n = d.name()
            if n.startswith("str!") or n.startswith("gaddr!") or n.startswith("addr!"):
                continue
            out[n] = str(m[d])
    return out


def first_model(st):
    s = st.solver(2000)
    if s.check() == z3.sat:
        return model_to_dict(s.model())
    return None


Engine.verify_lemma, Engine.spec_type = _lemma_methods()
Engine.verify_coverage, Engine.verify_accessor_coverage = _coverage_method()
