"""FSM layer: the transition table and action updates are extracted from the symbolic execution of the real
`channels.init` (builder calls interpreted with the semantics of go-statemachine/fsm/eventbuilder.go) and of the
action closures; `step` follows the assumed planner contract (DESIGN 2.6)."""
import z3
from .vals import *
from .state import State, Unsupported, Ev
from .models import MODELS, model
from .spec import SpecError
from .ir import MOD, short

BT = "fsm!builder"
CH = MOD + "/channels"
ROOT = MOD


class Builder:
    def __init__(self, name, action=None, trans=None, next_from=None, err=None):
        self.name, self.action, self.trans, self.next_from, self.err = name, action, trans or {}, next_from, err

    def __repr__(self):
        return "Builder(%s,%s,%s)" % (self.name, self.trans, self.err)


def key_of(v):
    """StateKey interface value -> python int or None"""
    if isinstance(v, IfaceV):
        if v.dyn is None:
            if z3.eq(v.ref, NIL):
                return None
            raise Unsupported("symbolic state key")
        x = z3.simplify(v.dyn[1])
        if z3.is_int_value(x):
            return x.as_long()
    raise Unsupported("state key %r" % (v,))


def wrap(b):
    return IfaceV(z3.Const(fresh_name("builder"), Ref), (BT, b))


@model("github.com/filecoin-project/go-statemachine/fsm.Event")
def _event(eng, fr, st, name, args, rtypes, ins):
    return [(st, wrap(Builder(key_of(args[0]))))]


def _from(srcs):
    def f(eng, fr, st, name, args, rtypes, ins):
        b = args[0]
        if b.err:
            return [(st, wrap(b))]
        if srcs == "any":
            ks = [None]
        elif srcs == "one":
            ks = [key_of(args[1])]
        else:
            sl = args[1]
            if not isinstance(sl.seq, SeqLit):
                raise Unsupported("FromMany with symbolic sources")
            ks = [key_of(x) for x in sl.seq.items]
        for k in ks:
            if k in b.trans:
                return [(st, wrap(Builder(b.name, b.action, b.trans, None, "duplicate transition source %r" % (k,))))]
        return [(st, wrap(Builder(b.name, b.action, dict(b.trans), ks)))]
    return f


MODELS["(%s).From" % BT] = _from("one")
MODELS["(%s).FromAny" % BT] = _from("any")
MODELS["(%s).FromMany" % BT] = _from("many")


def _to(kind):
    def f(eng, fr, st, name, args, rtypes, ins):
        b = args[0]
        if b.err:
            return [(st, wrap(b))]
        t = dict(b.trans)
        for k in b.next_from:
            t[k] = ("to", key_of(args[1])) if kind == "to" else (kind,)
        return [(st, wrap(Builder(b.name, b.action, t)))]
    return f


MODELS["(%s).To" % BT] = _to("to")
MODELS["(%s).ToNoChange" % BT] = _to("nochange")
MODELS["(%s).ToJustRecord" % BT] = _to("record")


@model("(%s).Action" % BT)
def _action(eng, fr, st, name, args, rtypes, ins):
    b = args[0]
    if b.err:
        return [(st, wrap(b))]
    if b.action is not None:
        return [(st, wrap(Builder(b.name, b.action, b.trans, None, "duplicate action")))]
    a = args[1]
    fv = a.dyn[1] if isinstance(a, IfaceV) and a.dyn else a
    return [(st, wrap(Builder(b.name, fv, b.trans)))]


STATE_T = MOD + "/channels/internal.ChannelState"


class FSM:
    def __init__(self, eng):
        self.eng = eng
        self.ir = eng.ir
        self.problems = []
        self.events = {}      # code -> Builder
        self.final = []
        self.cleanup = []
        self.entry = {}       # status -> function name
        self.status_names = {}
        self.event_names = {}
        self.actions = {}     # code -> (param types)
        self._load()

    def gval(self, name):
        eng = self.eng
        st = State(eng)
        return st, eng.global_value(st, name)

    def _load(self):
        eng, ir = self.eng, self.ir
        for c in ir.consts.values():
            if c["type"] == ROOT + ".Status":
                self.status_names[int(c["v"])] = c["name"].rsplit(".", 1)[1]
            if c["type"] == ROOT + ".EventCode":
                self.event_names[int(c["v"])] = c["name"].rsplit(".", 1)[1]
        st, ev = self.gval(CH + ".ChannelEvents")
        self.st0 = st
        if not isinstance(ev, SliceV) or not isinstance(ev.seq, SeqLit):
            self.problems.append("ChannelEvents is not a literal list after init: %r %s" % (ev, eng.init_notes))
            return
        for it in ev.seq.items:
            if not (isinstance(it, IfaceV) and it.dyn and it.dyn[0] == BT):
                self.problems.append("ChannelEvents entry is not a builder: %r" % (it,))
                continue
            b = it.dyn[1]
            if b.err:
                self.problems.append("builder error for event %s: %s" % (b.name, b.err))
            if b.name in self.events:
                self.problems.append("event %s defined twice" % b.name)
            self.events[b.name] = b
        for gname, target in ((CH + ".ChannelFinalityStates", self.final), (CH + ".CleanupStates", self.cleanup)):
            _, v = self.gval(gname)
            if isinstance(v, SliceV) and isinstance(v.seq, SeqLit):
                target.extend(key_of(x) for x in v.seq.items)
            else:
                self.problems.append("%s is not a literal list" % gname)
        st2, ef = self.gval(CH + ".ChannelStateEntryFuncs")
        try:
            c = st2.map_contents(ef)
            if c.base is not None:
                raise Unsupported("entry funcs map has symbolic base")
            for (k, p, v) in c.ups:
                fv = v.dyn[1] if isinstance(v, IfaceV) and v.dyn else v
                self.entry[key_of(k)] = fv.fn if isinstance(fv, FuncV) else repr(fv)
        except Unsupported as e:
            self.problems.append("ChannelStateEntryFuncs: %s" % e)
        for g in (CH + ".ChannelEvents", CH + ".ChannelFinalityStates", CH + ".CleanupStates", CH + ".ChannelStateEntryFuncs"):
            if g in eng.written_globals:
                self.problems.append("package variable %s is written outside init" % short(g))

    # ------------------------------------------------------------------ symbolic record
    def sym_state(self, st, name):
        return st.from_uf(STATE_T, name, [])

    def apply_action(self, st, code, rec, args):
        """symbolically run the action closure of event `code` on record rec; returns (rec', ok Bool)
        ok is false on paths where the action returns a non-nil error"""
        b = self.events[code]
        if b.action is None:
            return rec, z3.BoolVal(True)
        fn = self.ir.funcs[b.action.fn]
        eng = self.eng
        s0 = st.clone()
        base = len(s0.pc)
        cid = s0.new_cell(rec)
        ptr = PtrV("*" + STATE_T, cid, (), False, z3.Const(fresh_name("chst"), Ref), STATE_T)
        q = eng.quiet
        eng.quiet = True
        try:
            outs = eng.run(fn, [ptr] + list(args), s0, depth=1, freevars=list(b.action.bindings), stack=("fsm",))
        finally:
            eng.quiet = q
        res, okv = None, None
        rets = [o for o in outs if o.kind == "ret"]
        if len(rets) != len(outs):
            raise Unsupported("action of event %s has a non-returning path" % code)
        for o in reversed(rets):
            cond = z3.And(*o.st.pc[base:]) if len(o.st.pc) > base else z3.BoolVal(True)
            r2 = o.st.heap[cid]
            ok = o.results[0].ref == NIL
            if res is None:
                res, okv = r2, ok
            else:
                res, okv = st.ite(cond, r2, res), z3.If(cond, ok, okv)
        return res, okv

    def action_params(self, code):
        b = self.events[code]
        if b.action is None:
            return []
        fn = self.ir.funcs[b.action.fn]
        return [p["type"] for p in fn["params"][1:]]

    def lookup(self, code, status_term):
        """transition kind as python structure of z3 conditions: list of (cond, dest) in priority order"""
        b = self.events[code]
        out = []
        explicit = [(k, d) for k, d in b.trans.items() if k is not None]
        for k, d in explicit:
            out.append((status_term == k, d))
        if None in b.trans:
            others = z3.And(*[status_term != k for k, _ in explicit]) if explicit else z3.BoolVal(True)
            out.append((others, b.trans[None]))
        return out

    def step(self, st, rec, code, args):
        """planner contract: returns dict(applied Bool, rec', entry_runs Bool, notified Bool, terminated Bool)"""
        status = rec.f["Status"]
        is_final = z3.Or(*[status == f for f in self.final]) if self.final else z3.BoolVal(False)
        rec2, ok = self.apply_action(st, code, rec, args)
        cases = self.lookup(code, status)
        valid = z3.Or(*[c for c, _ in cases]) if cases else z3.BoolVal(False)
        applied = z3.And(z3.Not(is_final), valid, ok)
        new_status = status
        entry_same = z3.BoolVal(False)
        for c, d in reversed(cases):
            if d[0] == "to":
                new_status = z3.If(c, z3.IntVal(d[1]), new_status)
        nochange = z3.Or(*[c for c, d in cases if d[0] == "nochange"]) if cases else z3.BoolVal(False)
        record = z3.Or(*[c for c, d in cases if d[0] == "record"]) if cases else z3.BoolVal(False)
        rec3 = rec2.with_field("Status", new_status)
        out_rec = st.ite(applied, rec3, rec)
        ns = out_rec.f["Status"]
        has_entry = z3.Or(*[ns == k for k in self.entry]) if self.entry else z3.BoolVal(False)
        ns_final = z3.Or(*[ns == f for f in self.final]) if self.final else z3.BoolVal(False)
        entry_runs = z3.And(applied, z3.Not(record), has_entry, z3.Not(ns_final))
        return {"applied": applied, "rec": out_rec, "entry_runs": entry_runs, "notified": applied,
                "terminated": is_final, "valid": valid, "nochange": z3.And(applied, nochange), "record": z3.And(applied, record)}

    # ------------------------------------------------------------------ spec builtins
    def spec_call(self, ctx, n, args):
        """FSM builtins usable in lemmas: step(s, Event, args...).X, applied(s,E,...), entryRuns(s,E,...), isFinal(x),
        isCleanup(x), hasEntry(x)"""
        if n in ("step", "applied", "entryRuns", "rejected", "justRecord", "noChange", "validTransition"):
            s = ctx.eval(args[0])
            code = self.event_code(ctx, args[1])
            avals = [ctx.eval(a) for a in args[2:]]
            ptypes = self.action_params(code)
            if not avals and ptypes:
                ak = ("fsmargs", id(s), code)
                if ak not in ctx.st.ghost:
                    ctx.st.ghost[ak] = [ctx.st.from_uf(t, "arg%d_%s" % (i, self.event_names.get(code, code)), []) for i, t in enumerate(ptypes)]
                    for v in ctx.st.ghost[ak]:
                        if isinstance(v, IfaceV):
                            ctx.st.assume(v.ref != NIL)   # the typed Channels API never passes a nil error
                avals = ctx.st.ghost[ak]
            if len(avals) != len(ptypes):
                raise SpecError("event %s takes %d arguments" % (self.event_names.get(code), len(ptypes)))
            key = (id(s), code, tuple(id(a) for a in avals))
            r = ctx.st.ghost.get(("fsmstep", key))
            if r is None:
                r = self.step(ctx.st, s, code, avals)
                ctx.st.ghost[("fsmstep", key)] = r
            if n == "step":
                return r["rec"]
            if n == "applied":
                return r["applied"]
            if n == "rejected":
                return z3.Not(r["applied"])
            if n == "entryRuns":
                return r["entry_runs"]
            if n == "justRecord":
                return r["record"]
            if n == "noChange":
                return r["nochange"]
            if n == "validTransition":
                return r["valid"]
        if n == "eventArg":
            s = ctx.eval(args[0])
            code = self.event_code(ctx, args[1])
            ak = ("fsmargs", id(s), code)
            if ak not in ctx.st.ghost:
                raise SpecError("eventArg before step")
            return ctx.st.ghost[ak][args[2][1]]
        if n == "isFinal":
            x = to_int(ctx.eval(args[0]))
            return z3.Or(*[x == f for f in self.final])
        if n == "isCleanup":
            x = to_int(ctx.eval(args[0]))
            return z3.Or(*[x == f for f in self.cleanup])
        if n == "hasEntry":
            x = to_int(ctx.eval(args[0]))
            return z3.Or(*[x == f for f in self.entry]) if self.entry else z3.BoolVal(False)
        return None

    def event_code(self, ctx, a):
        v = ctx.eval(a)
        x = z3.simplify(to_int(v))
        if not z3.is_int_value(x):
            raise SpecError("event code must be a constant")
        code = x.as_long()
        if code not in self.events:
            raise SpecError("no builder for event %s" % self.event_names.get(code, code))
        return code

    def table_text(self):
        lines = []
        for code in sorted(self.events):
            b = self.events[code]
            tr = []
            for k, d in b.trans.items():
                src = "*" if k is None else self.status_names.get(k, k)
                dst = self.status_names.get(d[1], d[1]) if d[0] == "to" else d[0]
                tr.append("%s->%s" % (src, dst))
            lines.append("%s: %s" % (self.event_names.get(code, code), ", ".join(tr)))
        return lines
