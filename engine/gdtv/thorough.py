"""thorough tier: three-solver agreement on sampled obligations + must-fail corpus (selftest mutants)."""
import os, json, glob, subprocess, tempfile, shutil, time

VERIF = os.environ.get("VERIF_ROOT", "/verif")


def run(prop, eng, obls, recs, run_dir, seed):
    from . import solve
    out = {"violations": [], "machinery_errors": [], "coverage": {}}
    # 1. solver agreement on every obligation that has an SMT-LIB sample
    agree = []
    for o in obls:
        if not o.get("sample"):
            continue
        res = solve.all_solvers(o["sample"], 60)
        verdicts = {n: v for n, v, dt in res}
        definite = set(v for v in verdicts.values() if v in ("sat", "unsat"))
        agree.append({"obligation": o["name"], "verdicts": verdicts})
        if len(definite) > 1:
            out["machinery_errors"].append("solver disagreement on %s: %s" % (o["name"], verdicts))
    out["coverage"]["solver_agreement"] = agree[:200]
    # 2. must-fail corpus
    st = selftest(prop)
    out["coverage"]["selftest"] = st
    for r in st:
        if r["status"] == "missed":
            out["machinery_errors"].append("selftest mutant %s not caught (expected %s)" % (r["mutant"], r["expect"]))
    return out


def selftest(prop):
    """apply each corpus patch relevant to prop on a scratch copy and require the named obligation to fail"""
    res = []
    idx = os.path.join(VERIF, "selftest", "mutants.json")
    if not os.path.exists(idx):
        return res
    with open(idx) as f:
        corpus = json.load(f)
    for m in corpus:
        if m["property"] != prop:
            continue
        res.append(run_mutant(m))
    return res


def run_mutant(m):
    d = tempfile.mkdtemp(prefix="gdtv-mut-")
    try:
        subprocess.run(["bash", os.path.join(VERIF, "engine", "mkscratch.sh"), d], check=True, capture_output=True)
        p = subprocess.run(["git", "apply", "--whitespace=nowarn", os.path.join(VERIF, "selftest", "mutants", m["patch"])],
                           cwd=d, capture_output=True, text=True)
        if p.returncode != 0:
            return {"mutant": m["patch"], "status": "skipped", "reason": "patch does not apply to the current tree", "expect": m["expect"]}
        env = dict(os.environ)
        env["VERIF_REPO"] = d
        env["VERIF_NO_REPLAY"] = "1"
        env["VERIF_EVIDENCE_DIR"] = d
        p = subprocess.run([os.path.join(VERIF, "check"), m["property"], "quick"], env=env, capture_output=True, text=True, timeout=900)
        out = p.stdout
        hit = [e for e in m["expect"] if e in out]
        import re as _re
        failed = _re.findall(r"^  obligation (\S+):", out, _re.M)
        # caught: the check exits 1 with a VIOLATION; the obligation recorded when the corpus was built is normally among the failing
        # ones (matched); after a contract has been renamed or split it may be a different one (reported, not an error)
        status = "caught" if p.returncode == 1 and failed else "missed"
        return {"mutant": m["patch"], "status": status, "expect": m["expect"], "exit": p.returncode, "matched": hit, "failed_obligations": failed[:6]}
    finally:
        shutil.rmtree(d, ignore_errors=True)
