"""External solvers on SMT-LIB2 text: z3 4.8.12 (/usr/bin/z3), z3-new 5.1.0, cvc5 1.0.x."""
import os, subprocess, tempfile, time, concurrent.futures as cf

WORK = os.environ.get("GDTV_WORK", "/verif/work")
SOLVERS = {
    "z3-4.8.12": ["/usr/bin/z3", "-smt2"],
    "z3-5.1.0": ["z3-new", "-smt2"],
    "cvc5-1.0": ["cvc5", "--lang=smt2", "--incremental"],
}


def run_one(name, smt2, timeout):
    os.makedirs(WORK, exist_ok=True)
    fd, path = tempfile.mkstemp(suffix=".smt2", dir=WORK)
    txt = smt2
    if "(check-sat)" not in txt:
        txt += "\n(check-sat)\n"
    if name.startswith("cvc5"):
        txt = "(set-logic ALL)\n" + txt if "(set-logic" not in txt else txt
    with os.fdopen(fd, "w") as f:
        f.write(txt)
    cmd = list(SOLVERS[name])
    if name.startswith("z3"):
        cmd.append("-T:%d" % max(1, int(timeout)))
    else:
        cmd.append("--tlimit=%d" % int(timeout * 1000))
    cmd.append(path)
    t0 = time.time()
    try:
        p = subprocess.run(cmd, capture_output=True, text=True, timeout=timeout + 5)
        out = (p.stdout or "").strip().splitlines()
        first = out[0].strip() if out else "unknown"
    except subprocess.TimeoutExpired:
        first = "timeout"
    finally:
        try:
            os.unlink(path)
        except OSError:
            pass
    if first not in ("sat", "unsat"):
        first = "unknown"
    return name, first, time.time() - t0


def race(smt2, timeout, names=("z3-4.8.12", "cvc5-1.0")):
    """first definite answer wins"""
    with cf.ThreadPoolExecutor(len(names)) as ex:
        futs = [ex.submit(run_one, n, smt2, timeout) for n in names]
        res = []
        for f in cf.as_completed(futs):
            n, v, dt = f.result()
            res.append((n, v, dt))
            if v in ("sat", "unsat"):
                return v, n, res
    return "unknown", None, res


def all_solvers(smt2, timeout):
    with cf.ThreadPoolExecutor(3) as ex:
        return list(ex.map(lambda n: run_one(n, smt2, timeout), list(SOLVERS)))
