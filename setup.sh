#!/bin/bash
# builds the Go front-end (offline, cached go1.24.0 toolchain + x/tools v0.29.0)
set -e
cd "$(dirname "$0")/engine/gofront"
export PATH=/root/go/pkg/mod/golang.org/toolchain@v0.0.1-go1.24.0.linux-amd64/bin:$PATH
export GOTOOLCHAIN=local GOFLAGS=-mod=mod GOPROXY=off
unset GOSUMDB
mkdir -p /verif/bin /verif/work
go build -o /verif/bin/gofront .
